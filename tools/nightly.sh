#!/usr/bin/env bash
# long background job: more seeds on the clean tree, then every seeded change
cd "$(dirname "$0")/.."
tools/seedsweep.sh "6 7 8 9"
tools/seeds_all.sh
