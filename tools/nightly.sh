#!/usr/bin/env bash
cd "$(dirname "$0")/.."
tools/seedsweep.sh "2 3 4 5 6 7"
tools/seeds_all.sh
