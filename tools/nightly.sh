#!/usr/bin/env bash
cd "$(dirname "$0")/.."
tools/seeds_all.sh
tools/seedsweep.sh "10 11 12"
