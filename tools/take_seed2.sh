#!/usr/bin/env bash
# tools/take_seed2.sh C14  -- import /tmp/seed2/C14/_seed as seeded/C14b, verify it, run the check on it
ID=$1; SD=/tmp/seed2/$ID/_seed; DST=/verif/seeded/${ID}b
[ -f $SD/patch.diff ] || { echo "$ID: no patch yet"; exit 1; }
mkdir -p $DST; cp $SD/patch.diff $SD/demo.py $SD/meta.json $DST/
/verif/tools/verify_seed.sh ${ID}b $DST
cd /verif && tools/run_on_seed.sh ${ID}b $ID 2>&1 | grep -E "^\[C|violated|VIOLATION|exit=|HARNESS" | cut -c1-220 | tail -6
