#!/usr/bin/env bash
# tools/runall.sh [tier]  -- run every registered check once on /repo (regenerates evidence/)
cd "$(dirname "$0")/.."
TIER=${1:-quick}
for id in C01 C02 C03 C04 C05 C06 C07 C08 C09 C10 C11 C12 C13 C14 C15 C16 C17 C18; do
  ./check $id --tier $TIER 2>&1 | grep -E "^\[C|VIOLATION|HARNESS|KNOWN-FINDING" | cut -c1-160
  echo "  -> $id exit=${PIPESTATUS[0]}"
done
