#!/usr/bin/env bash
# tools/run_on_seed.sh <seed-ID> <check-ID> [tier]  -- run a check against a scratch copy of
# /repo with seeded/<seed-ID>/patch.diff applied (VERIF_REPO), then delete the copy.
set -u
SID=$1; CID=$2; TIER=${3:-quick}
WT=/tmp/vmut-$SID-$$
git -C /repo worktree add -q --detach "$WT" HEAD || exit 2
trap 'git -C /repo worktree remove --force "$WT" >/dev/null 2>&1; rm -rf "$WT" /tmp/vz-mutant-out-$$' EXIT
P=/verif/seeded/$SID/patch.diff; [ -f /verif/seeded/$SID/patch_rebased.diff ] && P=/verif/seeded/$SID/patch_rebased.diff; git -C "$WT" apply $P || { echo "patch does not apply"; exit 2; }
cd /verif
VERIF_REPO=$WT VZ_OUT=/tmp/vz-mutant-out-$$ ./check $CID --tier $TIER
echo "exit=$?"
