#!/venv/bin/python
"""Regenerates /verif/MANIFEST.json from the table below + the property modules present."""

import importlib
import json
import subprocess
import sys
from pathlib import Path

VERIF = Path(__file__).resolve().parent.parent
sys.path.insert(0, str(VERIF))

LEVEL_TEXT = {
    "C01": ("exploration", "Generated abstract pages rendered to .zo text and compared field by field with an independent reference compiler; samples the infinite page space, finds counterexamples, proves nothing.", "3/C01", "Hypothesis: generated pages vs reference compiler (round trip)"),
    "C02": ("exploration", "Every legal header skeleton up to a bound is enumerated and decorated with generated, uniquely named metadata; an independent scoping model is the oracle. Exhaustive in the skeleton dimension only.", "3/C02", "exhaustive skeleton enumeration x Hypothesis decorations vs reference scoping model"),
    "C03": ("exploration", "Generated directories are indexed by the real `db create`; generated filter trees are evaluated by an independent three-valued evaluator over raw SQLite rows and compared with the query engine.", "3/C03", "Hypothesis: differential vs independent evaluator over raw rows + metamorphic set laws"),
    "C04": ("exploration", "Generated query ASTs are rendered in all spellings and compiled; an independent denotation (own calendar arithmetic) is the oracle; priority spellings and kind subsets are enumerated exhaustively.", "3/C04", "Hypothesis + exhaustive enumeration vs independent denotation; render/compile round trip"),
    "C05": ("exploration", "Generated directories run through the real create/reindex commands; oracle = byte-level diff model of the files + three-way agreement file / recompiled model / raw index rows + idempotence.", "3/C05", "Hypothesis: file-diff model + index/recompile agreement + idempotence"),
    "C06": ("exploration", "Generated edit/reindex histories; differential oracle: canonical dump of the incrementally maintained index vs a fresh `db create` on a copy of the final files.", "3/C06", "Hypothesis model-based histories, differential vs rebuild"),
    "C07": ("exploration", "The successor chain is enumerated completely (135,252 suffixes) against the stated laws and both lexers; allocation/restart histories are generated against a model counter.", "3/C07", "exhaustive chain enumeration + Hypothesis stateful allocation histories vs model counter"),
    "C08": ("exploration", "Generated valid, damaged and arbitrary texts; oracle = totality + an independent parse with its own error listener + inspection of what the index commands did with the file.", "3/C08", "Hypothesis fuzzing (valid / mutated / arbitrary text) with independent-parse oracle"),
    "C09": ("exploration", "Generated indexes and select/group/order combinations; the output text is parsed back into a header tree and compared with an independent partition/order/label model over raw rows.", "3/C09", "Hypothesis: output parsed back vs independent grouping/ordering model; count-vs-select metamorphic"),
    "C10": ("exploration", "Generated indexed directories, every note moved to generated destinations; oracle = line-conservation model on both files + recompilation.", "3/C10", "Hypothesis: line-conservation model + recompile round trip"),
    "C11": ("exploration", "Generated multi-day edit histories; oracle = independent model of which notes changed since the page was last indexed, both directions, byte-exact file expectation.", "3/C11", "Hypothesis model-based histories vs independent 'what changed' model"),
    "C12": ("exploration", "Every note compiled from generated pages is rendered with to_string / query output / .zoq refresh / `note move` and recompiled; round-trip oracle.", "3/C12", "Hypothesis: render/recompile round trip"),
    "C13": ("fault_enumeration", "For generated scenarios every boundary between consecutive external effects of create/reindex (+ write-back) gets a crash injected, then the command is rerun and compared with an uninterrupted run.", "3/C13", "systematic crash injection at every effect boundary, rerun vs uninterrupted run"),
    "C14": ("exploration", "Generated directories with adversarial link texts; oracle = token-level rewrite model giving the expected bytes of every file.", "3/C14", "Hypothesis: byte-exact token-level rewrite model"),
    "C15": ("exploration", "Generated acyclic saved-query sets and referencing queries on a real index; oracle = independent evaluator on the substituted AST + explicit-parenthesis metamorphic relation + missing-name error.", "3/C15", "Hypothesis: metamorphic {name} == (saved WHERE) vs independent evaluator"),
    "C16": ("exploration", "Generated pattern maps, paths, variable maps and existing/missing targets through every entry point; oracle = no-clobber + first-match + own mini-renderer + idempotence.", "3/C16", "Hypothesis: no-clobber / first-match / render composition / idempotence oracles"),
    "C17": ("exploration", "Lines are built from a known target list, so the expected PROMPT list and the k-th target are known by construction; option k is compared with the one-target line (metamorphic) and resolutions with the raw index.", "3/C17", "Hypothesis: by-construction target list + option-k metamorphic relation"),
    "C18": ("exploration", "Generated acyclic group maps, argument lists and days; oracle = own recursive flatten with own calendar arithmetic + concatenation law + CLI route with the editor stubbed.", "3/C18", "Hypothesis: reference flatten model + concatenation homomorphism"),
}

NOTE = ("Trusted base: Hypothesis 6.168 generators/shrinker, freezegun as the clock, the in-process "
        "emulation of process boundaries (engine cache cleared between commands), sqlite3 for the raw "
        "read of the index, and the independent model named in level_claimed. Generated-input search "
        "never establishes absence of violations outside the generated domain (DESIGN.md per-property Limits).")

TEST_CMD = ("cd /repo && /venv/bin/python -m pytest -ra -q -p no:cacheprovider --timeout=900 "
            "--continue-on-collection-errors")


def main() -> None:
    props = [json.loads(l) for l in (VERIF / "properties.jsonl").read_text().splitlines() if l.strip()]
    checks, na = [], []
    hooks_commits = []
    hp = VERIF / "tools" / "hook_commits.txt"
    if hp.exists():
        hooks_commits = [l.split()[0] for l in hp.read_text().splitlines() if l.strip()]
    for p in props:
        pid = p["id"]
        modf = VERIF / "vz" / "props" / f"{pid.lower()}.py"
        if not modf.exists():
            na.append({"property_id": pid,
                       "reason": "check not built yet in this session (planned with the same technique, DESIGN.md section 3); nothing is claimed for it"})
            continue
        cat, text, ref, tech = LEVEL_TEXT[pid]
        checks.append({
            "property_id": pid,
            "quick_cmd": f"./check {pid} --tier quick",
            "thorough_cmd": f"./check {pid} --tier thorough",
            "evidence_file": f"/verif/evidence/{pid}.json",
            "replay_cmd_template": f"./check {pid} --replay {{path}}",
            "engine": "vz",
            "level_claimed": {"category": cat, "text": text, "design_ref": f"DESIGN.md section {ref}"},
            "level_note": NOTE,
            "technique": tech,
        })
    man = {
        "version": 1,
        "setup_cmd": "./tools/setup.sh",
        "hooks": {
            "guard": "ZORG_VERIF",
            "enable": "no source hooks: checks import /repo/src directly (editable install) and control clock, process boundaries, external programs and crash points from outside",
            "baseline_off_cmd": TEST_CMD,
            "source_commits": hooks_commits,
            "add_only": True,
        },
        "engines": [{
            "name": "vz",
            "path": "/verif/vz",
            "serves_properties": [c["property_id"] for c in checks],
            "kind_free_text": "Hypothesis-driven sharded property-based testing (16 forked shards), exhaustive enumeration of finite sub-spaces, fault enumeration for C13; explicit oracles = independent reference models, round trips, differential and metamorphic relations",
        }],
        "checks": checks,
        "notes": "All checks: `./check <ID> [--tier quick|thorough] [--replay FILE]`; VERIF_SEED selects the Hypothesis seed (shard i uses VERIF_SEED*1000+i). Known findings / fixed findings: known_findings.json. Seeded breakages used for sensitivity: seeded/<id>/.",
        "not_applicable": na,
    }
    (VERIF / "MANIFEST.json").write_text(json.dumps(man, indent=1) + "\n")
    print(f"MANIFEST.json: {len(checks)} checks, {len(na)} not_applicable")


if __name__ == "__main__":
    main()
