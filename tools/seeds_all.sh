#!/usr/bin/env bash
# tools/seeds_all.sh -- every seeded change against its check (quick tier); prints one line each
cd "$(dirname "$0")/.."
for d in seeded/*; do
  sid=$(basename $d); cid=${sid:0:3}; [ -f $d/check ] && cid=$(cat $d/check)
  [ -f $d/neutralised ] && { echo "$sid: NEUTRALISED by fix $(cat $d/neutralised) (behaviour-preserving on the current tree)"; continue; }
  out=$(tools/run_on_seed.sh $sid $cid 2>&1)
  if echo "$out" | grep -q "^VIOLATION"; then echo "$sid: CAUGHT  $(echo "$out" | grep violated | head -1 | cut -c1-120)"; else echo "$sid: MISSED  $(echo "$out" | tail -2 | tr '\n' ' ' | cut -c1-160)"; fi
done
