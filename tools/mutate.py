#!/venv/bin/python
"""tools/mutate.py -- systematic sensitivity measurement of the checks (mutation analysis).

Not part of any registered check.  It answers "which small changes to zorg that the project's
own 84 tests do not notice are noticed by the property checks?" with mechanically generated
first-order mutants instead of hand-written ones (those live in seeded/).

  stage 1  enumerate mutation sites (AST positions, textual replacement) in the files that the
           properties are anchored in; apply each in a scratch worktree of /repo HEAD under
           /tmp/mut and run the project's tests (-x): killed-by-tests mutants are dropped.
  stage 2  for a (seeded) sample of the survivors run the quick tier of the checks mapped to the
           mutated file against the worktree (VERIF_REPO); exit 1 + VIOLATION = killed.

Usage:  tools/mutate.py enumerate            -> mutation/sites.json
        tools/mutate.py tests   [N workers]  -> mutation/tests.json    (resumable)
        tools/mutate.py checks  [sample N] [lanes L]  -> mutation/checks.json  (resumable)
        tools/mutate.py report               -> mutation/REPORT.md
All scratch lives under /tmp/mut and is removed per worker at the end.
"""
from __future__ import annotations

import ast
import hashlib
import json
import os
import random
import shutil
import subprocess
import sys
import time
from multiprocessing import Process, Queue
from pathlib import Path

VERIF = Path(__file__).resolve().parent.parent
REPO = Path(os.environ.get("VERIF_REPO", "/repo"))
SRC = REPO / "src" / "zorg"
OUT = VERIF / "mutation"
SCRATCH = Path("/tmp/mut")

# file (relative to src/zorg) -> checks that exercise it
FILES = {
    "service/compiler/_file_compiler.py": ["C01", "C02", "C08", "C12"],
    "service/compiler/_query_compiler.py": ["C04", "C03", "C15"],
    "service/compiler/_api.py": ["C01", "C08"],
    "service/swog/_executor.py": ["C09", "C03"],
    "service/swog/_saved_queries.py": ["C15"],
    "service/swog/_refresh_zoq_file.py": ["C12"],
    "storage/sql/_query_converter.py": ["C03", "C09"],
    "storage/sql/_page_converters.py": ["C05", "C06", "C03", "C11"],
    "storage/sql/_repo.py": ["C06", "C05", "C03", "C09", "C13"],
    "storage/sql/_zid_manager.py": ["C07", "C05"],
    "storage/sql/_session.py": ["C06", "C13"],
    "storage/file/_manager.py": ["C10", "C12"],
    "service/handlers.py": ["C05", "C11", "C06", "C13", "C08"],
    "service/messagebus.py": ["C05", "C13"],
    "service/note_utils.py": ["C10", "C12", "C17"],
    "service/templates.py": ["C16"],
    "service/file_groups.py": ["C18"],
    "shared/common.py": ["C14", "C16", "C18", "C13"],
    "shared/dates.py": ["C04", "C01", "C07", "C11", "C05"],
    "domain/types.py": ["C12", "C01", "C09"],
    "domain/models/_page.py": ["C12", "C01"],
    "domain/models/_query.py": ["C04", "C09"],
    "app/runners/_run_action.py": ["C17", "C16"],
    "app/runners/_run_file.py": ["C14"],
    "app/runners/_run_note.py": ["C10"],
    "app/runners/_run_query.py": ["C09"],
    "app/runners/_run_db.py": ["C05", "C08"],
}

CMP = {ast.Eq: ("==", "!="), ast.NotEq: ("!=", "=="), ast.Lt: ("<", "<="), ast.LtE: ("<=", "<"),
       ast.Gt: (">", ">="), ast.GtE: (">=", ">"), ast.In: (" in ", " not in "), ast.NotIn: (" not in ", " in "),
       ast.Is: (" is ", " is not "), ast.IsNot: (" is not ", " is ")}


def _offsets(text: str):
    offs, n = [], 0
    for ln in text.split("\n"):
        offs.append(n)
        n += len(ln.encode()) + 1
    return offs


class Sites(ast.NodeVisitor):
    def __init__(self, text: str):
        self.text = text
        self.b = text.encode()
        self.offs = _offsets(text)
        self.out = []
        self.skip_depth = 0

    def pos(self, lineno, col):
        return self.offs[lineno - 1] + col

    def span(self, node):
        return self.pos(node.lineno, node.col_offset), self.pos(node.end_lineno, node.end_col_offset)

    def add(self, kind, a, b, new, node):
        old = self.b[a:b].decode()
        if old == new:
            return
        self.out.append({"kind": kind, "a": a, "b": b, "old": old, "new": new, "line": node.lineno})

    def visit_Call(self, node):
        # logging is no behaviour
        f = node.func
        if isinstance(f, ast.Attribute) and isinstance(f.value, ast.Name) and f.value.id in ("_LOGGER", "logger"):
            return
        self.generic_visit(node)

    def visit_Assert(self, node):
        return

    def visit_AnnAssign(self, node):
        if node.value is not None:
            self.visit(node.value)

    def visit_FunctionDef(self, node):
        for d in node.body:
            self.visit(d)

    visit_AsyncFunctionDef = visit_FunctionDef

    def visit_Compare(self, node):
        left = node.left
        for op, right in zip(node.ops, node.comparators):
            a = self.pos(left.end_lineno, left.end_col_offset)
            b = self.pos(right.lineno, right.col_offset)
            seg = self.b[a:b].decode()
            t = CMP.get(type(op))
            if t:
                tok = t[0].strip()
                i = seg.find(tok)
                if i >= 0:
                    self.add("cmp", a + i, a + i + len(tok), t[1].strip(), node)
                if isinstance(op, (ast.Lt, ast.Gt)):
                    pass
            left = right
        self.generic_visit(node)

    def visit_BoolOp(self, node):
        tok, new = ("and", "or") if isinstance(node.op, ast.And) else ("or", "and")
        for l, r in zip(node.values, node.values[1:]):
            a = self.pos(l.end_lineno, l.end_col_offset)
            b = self.pos(r.lineno, r.col_offset)
            seg = self.b[a:b].decode()
            i = seg.find(tok)
            if i >= 0:
                self.add("bool", a + i, a + i + len(tok), new, node)
        self.generic_visit(node)

    def visit_UnaryOp(self, node):
        if isinstance(node.op, ast.Not):
            a, b = self.span(node)
            oa, ob = self.span(node.operand)
            self.add("not", a, b, "(" + self.b[oa:ob].decode() + ")", node)
        self.generic_visit(node)

    def visit_If(self, node):
        a, b = self.span(node.test)
        if not isinstance(node.test, ast.UnaryOp):
            self.add("if-neg", a, b, "not (" + self.b[a:b].decode() + ")", node)
        self.generic_visit(node)

    visit_While = visit_If

    def visit_IfExp(self, node):
        a, b = self.span(node.test)
        self.add("ifexp-neg", a, b, "not (" + self.b[a:b].decode() + ")", node)
        self.generic_visit(node)

    def visit_Constant(self, node):
        v = node.value
        a, b = self.span(node)
        if isinstance(v, bool):
            self.add("const", a, b, str(not v), node)
        elif isinstance(v, int) and 0 <= v <= 12:
            self.add("const", a, b, str(v + 1), node)
            if v > 0:
                self.add("const", a, b, str(v - 1), node)
        elif isinstance(v, str) and 1 <= len(v) <= 3 and "\n" not in v and not self.b[a:b].startswith((b'"""', b"f")):
            # short literal strings are mostly syntax characters of the formats
            self.add("const-str", a, b, repr(v + v[-1]), node)

    def visit_JoinedStr(self, node):
        return

    def visit_BinOp(self, node):
        if isinstance(node.op, (ast.Add, ast.Sub)):
            a = self.pos(node.left.end_lineno, node.left.end_col_offset)
            b = self.pos(node.right.lineno, node.right.col_offset)
            seg = self.b[a:b].decode()
            tok, new = ("+", "-") if isinstance(node.op, ast.Add) else ("-", "+")
            i = seg.find(tok)
            if i >= 0 and not isinstance(node.left, ast.Constant) or (isinstance(node.left, ast.Constant) and not isinstance(node.left.value, str)):
                if i >= 0:
                    self.add("arith", a + i, a + i + 1, new, node)
        self.generic_visit(node)

    def visit_Expr(self, node):
        # delete a call statement
        if isinstance(node.value, ast.Call):
            f = node.value.func
            if isinstance(f, ast.Attribute) and isinstance(f.value, ast.Name) and f.value.id in ("_LOGGER", "logger"):
                return
            a, b = self.span(node)
            self.add("del-call", a, b, "pass", node)
        elif isinstance(node.value, ast.Constant):
            return  # docstring
        self.generic_visit(node)

    def visit_Return(self, node):
        if node.value is not None and not isinstance(node.value, ast.Constant):
            self.generic_visit(node)

    def visit_AugAssign(self, node):
        a, b = self.span(node)
        self.add("del-aug", a, b, "pass", node)
        self.generic_visit(node)

    def visit_Break(self, node):
        a, b = self.span(node)
        self.add("break-continue", a, b, "continue", node)

    def visit_Continue(self, node):
        a, b = self.span(node)
        self.add("continue-break", a, b, "break", node)


def enumerate_sites():
    sites = []
    for rel, checks in FILES.items():
        p = SRC / rel
        text = p.read_text()
        v = Sites(text)
        v.visit(ast.parse(text))
        for s in v.out:
            s["file"] = rel
            s["checks"] = checks
            s["id"] = hashlib.sha1(f"{rel}:{s['a']}:{s['b']}:{s['new']}".encode()).hexdigest()[:10]
            # the mutant must still compile
            b = text.encode()
            mutated = (b[:s["a"]] + s["new"].encode() + b[s["b"]:]).decode()
            try:
                compile(mutated, rel, "exec")
            except SyntaxError:
                continue
            sites.append(s)
    OUT.mkdir(exist_ok=True)
    (OUT / "sites.json").write_text(json.dumps(sites, indent=0))
    by = {}
    for s in sites:
        by[s["file"]] = by.get(s["file"], 0) + 1
    print(len(sites), "sites")
    for k, n in sorted(by.items()):
        print(f"  {n:4d} {k}")


def _mk_worktree(k):
    wt = SCRATCH / f"wt{k}"
    subprocess.run(["git", "-C", str(REPO), "worktree", "remove", "--force", str(wt)], capture_output=True)
    shutil.rmtree(wt, ignore_errors=True)
    SCRATCH.mkdir(exist_ok=True)
    subprocess.run(["git", "-C", str(REPO), "worktree", "add", "-q", "--detach", str(wt), "HEAD"], check=True)
    return wt


def _rm_worktree(wt):
    subprocess.run(["git", "-C", str(REPO), "worktree", "remove", "--force", str(wt)], capture_output=True)
    shutil.rmtree(wt, ignore_errors=True)


def _apply(wt, s):
    p = wt / "src" / "zorg" / s["file"]
    b = (SRC / s["file"]).read_bytes()
    assert b[s["a"]:s["b"]].decode() == s["old"], "site does not match the current tree"
    p.write_bytes(b[:s["a"]] + s["new"].encode() + b[s["b"]:])


def _restore(wt, s):
    shutil.copyfile(SRC / s["file"], wt / "src" / "zorg" / s["file"])


def _tests_worker(k, q, res):
    wt = _mk_worktree(k)
    env = dict(os.environ, PYTHONPATH=str(wt / "src"), PYTHONDONTWRITEBYTECODE="1", PYTHONHASHSEED="0")
    try:
        while True:
            s = q.get()
            if s is None:
                break
            _apply(wt, s)
            t0 = time.time()
            try:
                r = subprocess.run(["/venv/bin/python", "-m", "pytest", "-x", "-q", "-p", "no:cacheprovider", "tests"],
                                   cwd=wt, env=env, capture_output=True, text=True, timeout=600)
                code = r.returncode
                tail = (r.stdout.strip().split("\n") or [""])[-1][:200]
            except subprocess.TimeoutExpired:
                code, tail = 124, "timeout"
            _restore(wt, s)
            res.put({"id": s["id"], "tests_exit": code, "tail": tail, "wall": round(time.time() - t0, 1)})
    finally:
        _rm_worktree(wt)
        res.put(None)


def run_tests(workers):
    sites = json.loads((OUT / "sites.json").read_text())
    done_p = OUT / "tests.json"
    done = json.loads(done_p.read_text()) if done_p.exists() else {}
    todo = [s for s in sites if s["id"] not in done]
    print(f"{len(todo)} mutants to test ({len(done)} done)")
    q, res = Queue(), Queue()
    for s in todo:
        q.put(s)
    for _ in range(workers):
        q.put(None)
    ps = [Process(target=_tests_worker, args=(k, q, res)) for k in range(workers)]
    for p in ps:
        p.start()
    alive, n = workers, 0
    while alive:
        r = res.get()
        if r is None:
            alive -= 1
            continue
        done[r["id"]] = r
        n += 1
        if n % 20 == 0:
            done_p.write_text(json.dumps(done, indent=0))
            surv = sum(1 for x in done.values() if x["tests_exit"] == 0)
            print(f"{n}/{len(todo)} tested; survivors so far {surv}", flush=True)
    done_p.write_text(json.dumps(done, indent=0))
    for p in ps:
        p.join()


def _checks_worker(k, q, res, shards):
    wt = _mk_worktree(100 + k)
    out = SCRATCH / f"out{k}"
    env = dict(os.environ, VERIF_REPO=str(wt), VZ_OUT=str(out), VZ_SHARDS=str(shards), VZ_NO_SHRINK="1",
               PYTHONHASHSEED="0", VERIF_SEED="1")
    try:
        while True:
            s = q.get()
            if s is None:
                break
            _apply(wt, s)
            verdict = {"id": s["id"], "runs": []}
            for cid in s["checks"]:
                t0 = time.time()
                try:
                    r = subprocess.run([str(VERIF / "check"), cid, "--tier", "quick"], cwd=VERIF, env=env,
                                       capture_output=True, text=True, timeout=1500)
                    code = r.returncode
                    lines = (r.stdout + r.stderr).split("\n")
                    viol = [ln for ln in lines if "violated:" in ln][:1]
                    herr = [ln for ln in lines if "HARNESS-ERROR" in ln][:1]
                except subprocess.TimeoutExpired:
                    code, viol, herr = 124, [], ["timeout"]
                verdict["runs"].append({"check": cid, "exit": code, "violated": (viol or [""])[0][:300],
                                        "harness": (herr or [""])[0][:200], "wall": round(time.time() - t0, 1)})
                shutil.rmtree(out, ignore_errors=True)
                if code == 1 and viol:
                    break
            _restore(wt, s)
            res.put(verdict)
    finally:
        _rm_worktree(wt)
        shutil.rmtree(out, ignore_errors=True)
        res.put(None)


def run_checks(sample, lanes):
    sites = {s["id"]: s for s in json.loads((OUT / "sites.json").read_text())}
    tests = json.loads((OUT / "tests.json").read_text())
    surv = sorted(i for i, r in tests.items() if r["tests_exit"] == 0 and i in sites)
    random.Random(20260927).shuffle(surv)
    done_p = OUT / "checks.json"
    done = json.loads(done_p.read_text()) if done_p.exists() else {}
    pick = surv[:sample]
    todo = [sites[i] for i in pick if i not in done]
    print(f"{len(surv)} survivors of the tests; sample {len(pick)}; {len(todo)} to run")
    q, res = Queue(), Queue()
    for s in todo:
        q.put(s)
    for _ in range(lanes):
        q.put(None)
    ps = [Process(target=_checks_worker, args=(k, q, res, max(2, 16 // lanes))) for k in range(lanes)]
    for p in ps:
        p.start()
    alive, n = lanes, 0
    while alive:
        r = res.get()
        if r is None:
            alive -= 1
            continue
        done[r["id"]] = r
        n += 1
        done_p.write_text(json.dumps(done, indent=0))
        killed = any(x["exit"] == 1 and x["violated"] for x in r["runs"])
        s = sites[r["id"]]
        print(f"{n}/{len(todo)} {s['file']}:{s['line']} {s['kind']} {s['old']!r}->{s['new']!r}: "
              f"{'KILLED by ' + r['runs'][-1]['check'] if killed else 'survived ' + ','.join(x['check'] + '=' + str(x['exit']) for x in r['runs'])}",
              flush=True)
    for p in ps:
        p.join()


def report():
    sites = {s["id"]: s for s in json.loads((OUT / "sites.json").read_text())}
    tests = json.loads((OUT / "tests.json").read_text())
    checks = json.loads((OUT / "checks.json").read_text()) if (OUT / "checks.json").exists() else {}
    notes_p = OUT / "survivor_notes.json"
    notes = json.loads(notes_p.read_text()) if notes_p.exists() else {}
    tk = sum(1 for i, r in tests.items() if i in sites and r["tests_exit"] != 0)
    ts = sum(1 for i, r in tests.items() if i in sites and r["tests_exit"] == 0)
    lines = ["# Mutation analysis of the property checks", "",
             f"* {len(sites)} first-order mutants in {len(FILES)} files; {tk} killed by the project's tests, "
             f"**{ts} survive the tests**.",
             f"* {len(checks)} test-surviving mutants (seeded random sample) were run against the quick tier of the "
             "checks mapped to their file:"]
    killed = {i: r for i, r in checks.items() if any(x["exit"] == 1 and x["violated"] for x in r["runs"])}
    lines.append(f"  **{len(killed)} killed** by a property check, {len(checks) - len(killed)} not.")
    lines += ["", "## Per file", "", "| file | sampled | killed by a check |", "|---|---|---|"]
    per = {}
    for i, r in checks.items():
        f = sites[i]["file"] if i in sites else "?"
        a = per.setdefault(f, [0, 0])
        a[0] += 1
        a[1] += i in killed
    for f, (n, k) in sorted(per.items()):
        lines.append(f"| {f} | {n} | {k} |")
    lines += ["", "## Mutants no check noticed", "",
              "| mutant | change | checks run | assessment |", "|---|---|---|---|"]
    for i, r in sorted(checks.items(), key=lambda kv: (sites.get(kv[0], {}).get("file", ""), sites.get(kv[0], {}).get("line", 0))):
        if i in killed or i not in sites:
            continue
        s = sites[i]
        lines.append(f"| {i} {s['file']}:{s['line']} | `{s['old']}` -> `{s['new']}` ({s['kind']}) | "
                     f"{', '.join(x['check'] + ('' if x['exit'] == 0 else '(exit ' + str(x['exit']) + ')') for x in r['runs'])} | {notes.get(i, '')} |")
    lines += ["", "## Killed (first violated clause)", "", "| mutant | change | by | clause |", "|---|---|---|---|"]
    for i, r in sorted(killed.items(), key=lambda kv: (sites[kv[0]]["file"], sites[kv[0]]["line"])):
        s = sites[i]
        last = r["runs"][-1]
        lines.append(f"| {i} {s['file']}:{s['line']} | `{s['old']}` -> `{s['new']}` | {last['check']} | "
                     f"{last['violated'].strip()[:110].replace('|', '/')} |")
    (OUT / "REPORT.md").write_text("\n".join(lines) + "\n")
    print("\n".join(lines[:12]))


def run_one(site_id, checks):
    """Apply one site and run the given checks with the full quick tier (16 shards)."""
    sites = {s["id"]: s for s in json.loads((OUT / "sites.json").read_text())}
    s = sites[site_id]
    wt = _mk_worktree(900)
    out = SCRATCH / "out900"
    env = dict(os.environ, VERIF_REPO=str(wt), VZ_OUT=str(out), VZ_NO_SHRINK="1", PYTHONHASHSEED="0")
    try:
        _apply(wt, s)
        print(f"{s['file']}:{s['line']} {s['kind']} {s['old']!r} -> {s['new']!r}")
        for cid in checks:
            r = subprocess.run([str(VERIF / "check"), cid, "--tier", "quick"], cwd=VERIF, env=env,
                               capture_output=True, text=True)
            lines = [ln for ln in (r.stdout + r.stderr).split("\n") if "violated:" in ln or ln.startswith("[C")]
            print(f"  {cid}: exit {r.returncode}  " + " | ".join(x.strip()[:160] for x in lines[:2]))
    finally:
        _rm_worktree(wt)
        shutil.rmtree(out, ignore_errors=True)


if __name__ == "__main__":
    cmd = sys.argv[1] if len(sys.argv) > 1 else "report"
    if cmd == "one":
        run_one(sys.argv[2], sys.argv[3:])
        sys.exit(0)
    if cmd == "enumerate":
        enumerate_sites()
    elif cmd == "tests":
        run_tests(int(sys.argv[2]) if len(sys.argv) > 2 else 12)
    elif cmd == "checks":
        run_checks(int(sys.argv[2]) if len(sys.argv) > 2 else 100, int(sys.argv[3]) if len(sys.argv) > 3 else 4)
    else:
        report()
