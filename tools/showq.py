#!/venv/bin/python
import json,sys
sys.path.insert(0,'/verif'); sys.path.insert(0,'/repo/src')
from vz.model import query as Q
for f in sys.argv[1:]:
    b=json.load(open(f)); c=b['case']
    print("==",f, b['signature']); print("  text:", Q.render(c['q']), " today", c.get('today')); print("  detail:", b['detail'][:600])
