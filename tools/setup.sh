#!/usr/bin/env bash
# MANIFEST.setup_cmd: offline; makes sure hypothesis is importable by /venv/bin/python.
set -u
cd "$(dirname "$0")/.."
export PIP_NO_INDEX=1
PY=/venv/bin/python
if ! "$PY" -c 'import hypothesis' >/dev/null 2>&1; then
    "$PY" -m pip install -q --no-index --find-links /opt/veriftools/wheels hypothesis || exit 1
fi
"$PY" -c 'import hypothesis, freezegun, zorg; print("setup ok: hypothesis", hypothesis.__version__)'
