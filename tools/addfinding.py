#!/venv/bin/python
"""tools/addfinding.py  -- append an entry to known_findings.json (development-time only).
usage: addfinding.py <property> <status: fixed|known> <key> <commit-or-'-'> <part> <case-json-or-@replayfile> <what...>"""
import json, sys
from pathlib import Path
V = Path(__file__).resolve().parent.parent
p = V / "known_findings.json"
data = json.loads(p.read_text()) if p.exists() else {"findings": []}
prop, status, key, commit, part, case = sys.argv[1:7]
what = " ".join(sys.argv[7:])
if case.startswith("@"):
    cases = []
    for f in case[1:].split(","):
        body = json.loads(Path(f).read_text()); cases.append(body["case"]); part = body["part"]
    wit = {"part": part, "cases": cases}
else:
    wit = {"part": part, "cases": [json.loads(case)]}
e = {"property": prop, "status": status, "key": key, "what": what, "witness": wit}
if status == "fixed":
    e["commit"] = commit
    e["record"] = f"fixed: property={prop} {commit} {what}"
data["findings"] = [f for f in data["findings"] if not (f["property"] == prop and f["key"] == key)] + [e]
p.write_text(json.dumps(data, indent=1) + "\n")
print("recorded", prop, key)
