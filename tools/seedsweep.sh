#!/usr/bin/env bash
# tools/seedsweep.sh "2 3 4" [tier] -- every check at several VERIF_SEED values (clean tree must stay silent)
cd "$(dirname "$0")/.."
for s in $1; do
  for id in C01 C02 C03 C04 C05 C06 C07 C08 C09 C10 C11 C12 C13 C14 C15 C16 C17 C18; do
    out=$(VERIF_SEED=$s VZ_OUT_EVIDENCE=/tmp/seedsweep-ev ./check $id --tier ${2:-quick} 2>&1); code=$?
    echo "seed=$s $id exit=$code $(echo "$out" | grep -E '^\[C' | cut -c1-110)"
    [ $code -ne 0 ] && echo "$out" | grep -E "violated|VIOLATION|HARNESS" | cut -c1-600
  done
done
