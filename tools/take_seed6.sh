#!/usr/bin/env bash
ID=$1; SD=/tmp/seed6/$ID/_seed; DST=/verif/seeded/${ID}f
[ -f $SD/patch.diff ] || { echo "$ID: no patch yet"; exit 1; }
mkdir -p $DST; cp $SD/patch.diff $SD/demo.py $SD/meta.json $DST/
/verif/tools/verify_seed.sh ${ID}f $DST
cd /verif && tools/run_on_seed.sh ${ID}f $ID 2>&1 | grep -E "^\[C|violated|VIOLATION|exit=|HARNESS|patch" | cut -c1-220 | tail -5
