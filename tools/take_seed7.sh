#!/usr/bin/env bash
ID=$1; SD=/tmp/seed7/$ID/_seed; DST=/verif/seeded/${ID}g
[ -f $SD/patch.diff ] || { echo "$ID: no patch yet"; exit 1; }
mkdir -p $DST; cp $SD/patch.diff $SD/demo.py $SD/meta.json $DST/
/verif/tools/verify_seed.sh ${ID}g $DST
cd /verif && tools/run_on_seed.sh ${ID}g $ID 2>&1 | grep -E "^\[C|violated|VIOLATION|exit=|HARNESS|patch" | cut -c1-220 | tail -5
