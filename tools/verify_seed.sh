#!/usr/bin/env bash
# Independent confirmation of a seeded change:  tools/verify_seed.sh <ID> <seed-dir>
# <seed-dir> holds patch.diff, demo.py, meta.json.  Uses a scratch worktree of /repo HEAD
# under /tmp, removes it afterwards.  Prints one summary line.
set -u
ID=$1; SD=$2
WT=/tmp/vseed-$ID-$$
git -C /repo worktree add -q --detach "$WT" HEAD || exit 2
cleanup() { git -C /repo worktree remove --force "$WT" >/dev/null 2>&1; rm -rf "$WT"; }
trap cleanup EXIT
cd "$WT"
export PYTHONPATH="$WT/src" PYTHONDONTWRITEBYTECODE=1
/venv/bin/python "$SD/demo.py" >/tmp/vseed-$ID.clean.log 2>&1; CLEAN=$?
PATCH="$SD/patch.diff"; [ -f "$SD/patch_rebased.diff" ] && PATCH="$SD/patch_rebased.diff"
git apply "$PATCH" || { echo "$ID: PATCH DOES NOT APPLY"; exit 1; }
FILES=$(git diff --name-only | tr '\n' ' ')
/venv/bin/python "$SD/demo.py" >/tmp/vseed-$ID.mut.log 2>&1; MUT=$?
/venv/bin/python -m pytest -q -p no:cacheprovider -x tests >/tmp/vseed-$ID.tests.log 2>&1; T=$?
TAIL=$(tail -1 /tmp/vseed-$ID.tests.log)
echo "$ID: demo_clean=$CLEAN demo_mutant=$MUT tests_exit=$T [$TAIL] files: $FILES"
