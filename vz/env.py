"""Sandbox directories, process-boundary emulation, clock and CLI invocation."""

from __future__ import annotations

import contextlib
import io
import os
import shutil
import sys
import tempfile
from pathlib import Path
from typing import Iterator, Optional, Sequence

_TMP_ROOT: Optional[str] = None


def init() -> None:
    """One-time process initialisation (before forking shards)."""
    global _TMP_ROOT
    base = os.environ.get("VZ_TMP")
    if not base:
        base = "/dev/shm" if os.access("/dev/shm", os.W_OK) else tempfile.gettempdir()
    _TMP_ROOT = base
    # hermetic user configuration
    home = Path(base) / f"vz-home-{os.getpid()}"
    home.mkdir(parents=True, exist_ok=True)
    os.environ["HOME"] = str(home)
    os.environ["XDG_CONFIG_HOME"] = str(home / "cfg")
    os.environ["XDG_DATA_HOME"] = str(home / "data")
    os.environ["XDG_CACHE_HOME"] = str(home / "cache")
    os.environ.pop("ZORG_ZETTEL_DIR", None)
    import atexit

    atexit.register(lambda p=str(home), pid=os.getpid(): (
        shutil.rmtree(p, ignore_errors=True) if os.getpid() == pid else None))
    # import the heavy modules once, before fork
    import freezegun  # noqa: F401
    import zorg.app.__main__  # noqa: F401
    import zorg.service.messagebus  # noqa: F401


@contextlib.contextmanager
def sandbox(prefix: str = "vz-") -> Iterator[Path]:
    d = Path(tempfile.mkdtemp(prefix=prefix, dir=_TMP_ROOT))
    try:
        yield d
    finally:
        fresh_process()
        shutil.rmtree(d, ignore_errors=True)


def fresh_process() -> None:
    """Emulate a process boundary between two zorg commands.

    ``create_cached_engine`` is an lru_cache; a real CLI run never sees an engine of a previous
    command.  ZorgTemplateManager keeps a class-level TemporaryDirectory: one per real process.
    """
    from zorg.storage.sql import _engine

    try:
        cache = _engine.create_cached_engine
        if cache.cache_info().currsize:
            cache.cache_clear()
            import gc

            gc.collect()
    except Exception:  # noqa: BLE001
        pass
    try:
        from zorg.service import templates as _t

        global _TMPL_PID
        old = _t.ZorgTemplateManager.tmp_dir
        mine = _TMPL_PID == os.getpid()
        try:
            dirty = bool(os.listdir(old.name))
        except OSError:
            dirty = True
        if not mine or dirty:
            # (a forked shard must not share -- or clean up -- the directory it inherited)
            _t.ZorgTemplateManager.tmp_dir = tempfile.TemporaryDirectory(dir=_TMP_ROOT)
            _TMPL_PID = os.getpid()
            if mine:
                try:
                    old.cleanup()
                except Exception:  # noqa: BLE001
                    pass
            else:
                old._finalizer.detach()
    except Exception:  # noqa: BLE001
        pass


_TMPL_PID = None


def db_url(zdir: Path) -> str:
    return f"sqlite:///{zdir}/.zorg/zorg.db"


def write_config(path: Path, **kwargs) -> Path:
    import yaml

    path.parent.mkdir(parents=True, exist_ok=True)
    with path.open("w") as f:
        yaml.dump(dict(kwargs), f, allow_unicode=True, sort_keys=False)
    return path


class CmdResult:
    def __init__(self, code, out, exc=None):
        self.code = code
        self.out = out
        self.exc = exc

    def __repr__(self):
        return f"CmdResult(code={self.code!r}, out={self.out[:200]!r}, exc={self.exc!r})"


def zorg(zdir: Path, *args: str, config: Optional[Path] = None,
         cwd: Optional[Path] = None) -> CmdResult:
    """Run one zorg CLI command in-process, as a fresh process would."""
    from zorg.app.__main__ import main

    fresh_process()
    argv = ["zorg", "--log=null"]
    if config is not None:
        argv += [f"-c{config}"]
    # options carry their value in the same word: zorg's "infer `edit`" heuristic
    # looks at the first word that does not start with "-"
    argv += [f"--dir={zdir}"] + [str(a) for a in args]
    buf = io.StringIO()
    code = None
    exc = None
    old_cwd = os.getcwd()
    try:
        if cwd is not None:
            os.chdir(cwd)
        from .driver import watchdog

        with contextlib.redirect_stdout(buf), watchdog():
            try:
                code = main(argv)
            except SystemExit as e:
                code = e.code if isinstance(e.code, int) else (0 if e.code is None else 2)
    finally:
        os.chdir(old_cwd)
        fresh_process()
    return CmdResult(code, buf.getvalue(), exc)


def zorg_subprocess(zdir: Path, *args: str, day: str, config: Optional[Path] = None,
                    crash_at: Optional[int] = None, torn: bool = False, timeout: float = 120.0) -> CmdResult:
    """Run one zorg command in a REAL fresh process (clock frozen to `day` inside it)."""
    import subprocess

    repo_src = os.path.join(os.environ.get("VERIF_REPO", "/repo"), "src")
    verif = str(Path(__file__).resolve().parent.parent)
    cmd = [sys.executable, "-m", "vz.subproc_main", repo_src, day]
    if crash_at is not None:
        cmd += ["--crash-at", str(crash_at)] + (["--torn"] if torn else [])
    cmd += ["--", "--log=null"] + ([f"-c{config}"] if config else []) + [f"--dir={zdir}"] + [str(a) for a in args]
    envv = dict(os.environ, PYTHONPATH=verif + os.pathsep + repo_src, PYTHONHASHSEED="0")
    p = subprocess.run(cmd, stdout=subprocess.PIPE, stderr=subprocess.DEVNULL, env=envv, timeout=timeout, cwd=verif)
    return CmdResult(p.returncode, p.stdout.decode("utf-8", "replace"))


@contextlib.contextmanager
def frozen(day: str, hhmm: str = "12:00"):
    """Freeze zorg's clock to ``day`` (YYYY-MM-DD).  Use inside a case only."""
    from freezegun import freeze_time

    with freeze_time(f"{day}T{hhmm}:00"):
        yield


def write_files(zdir: Path, files: dict) -> None:
    for rel, text in files.items():
        p = zdir / rel
        p.parent.mkdir(parents=True, exist_ok=True)
        if isinstance(text, bytes):
            p.write_bytes(text)
        else:
            p.write_bytes(text.encode("utf-8"))


def read_tree(zdir: Path, skip_dot: bool = True) -> dict:
    out = {}
    for p in sorted(zdir.rglob("*")):
        if p.is_file():
            rel = str(p.relative_to(zdir))
            if skip_dot and rel.startswith("."):
                continue
            out[rel] = p.read_bytes().decode("utf-8", errors="surrogateescape")
    return out
