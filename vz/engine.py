"""Runs one property: witnesses, parts, shrinking, replay files, evidence, exit code."""

from __future__ import annotations

import hashlib
import json
import os
import time
from pathlib import Path

from . import driver
from .driver import Excluded, InvalidCase, Rec, Violation

VERIF = Path(__file__).resolve().parent.parent
KNOWN = VERIF / "known_findings.json"
# Sensitivity runs against a mutated copy (VERIF_REPO=<scratch>) must not touch the
# committed evidence / replays: their output goes to a scratch directory instead.
_REPO = Path(os.environ.get("VERIF_REPO", "/repo")).resolve()
OUT = VERIF if _REPO == Path("/repo") else Path(os.environ.get("VZ_OUT", "/tmp/vz-mutant-out"))


import contextlib


@contextlib.contextmanager
def _quiet_stderr():
    """zorg / ANTLR print to the real stderr; keep the parent's output readable."""
    if os.environ.get("VZ_DEBUG") == "1":
        yield
        return
    import sys

    sys.stderr.flush()
    saved = os.dup(2)
    dn = os.open(os.devnull, os.O_WRONLY)
    os.dup2(dn, 2)
    try:
        yield
    finally:
        sys.stderr.flush()
        os.dup2(saved, 2)
        os.close(saved)
        os.close(dn)


def load_findings(pid: str) -> list[dict]:
    if not KNOWN.exists():
        return []
    data = json.loads(KNOWN.read_text())
    return [f for f in data.get("findings", []) if f.get("property") == pid]


def _find_part(mod, tier: str, name: str):
    for p in mod.parts(tier):
        if p.name == name:
            return p
    for p in mod.parts("thorough"):
        if p.name == name:
            return p
    raise KeyError(f"no part {name!r} in {mod.ID}")


def _write_replay(pid: str, part: str, case, sig: str, detail: str) -> Path:
    d = OUT / "replays" / pid
    d.mkdir(parents=True, exist_ok=True)
    body = {"property": pid, "part": part, "signature": sig,
            "detail": detail, "case": case}
    h = hashlib.sha1(json.dumps([part, case], sort_keys=True, default=str).encode()).hexdigest()[:12]
    path = d / f"{h}.json"
    path.write_text(json.dumps(body, indent=1, sort_keys=True, default=str) + "\n")
    return path


def replay(mod, path: str) -> int:
    body = json.loads(Path(path).read_text())
    part = _find_part(mod, "quick", body["part"])
    rec = Rec()
    try:
        with _quiet_stderr():
            part.check(body["case"], rec)
    except Violation as v:
        print(f"replay: violated clause={v.clause}\n{v.detail}")
        print(f"VIOLATION property={mod.ID} replay={path}")
        return 1
    except InvalidCase as e:
        print(f"replay: case is outside the property's domain: {e}")
        return 2
    print(f"replay: property={mod.ID} holds on {path}")
    return 0


def _render_samples(mod, samples) -> list:
    """Human-readable view of the sampled cases (module hook `sample_view`), best effort."""
    view = getattr(mod, "sample_view", None)
    out = []
    if view is None:
        return out
    for c in samples:
        try:
            out.append(str(view(c))[:3000])
        except Exception as e:  # noqa: BLE001
            out.append(f"<not renderable: {type(e).__name__}>")
    return out


_WIT: dict = {}


def _replay_witness(job):
    """-> (kind, clause, detail); kind in ok / violation / harness.  Runs in a forked worker."""
    fi, wi = job
    f = _WIT["findings"][fi]
    w = f["witness"]
    wcase = w.get("cases", [w.get("case")])[wi]
    try:
        part = _find_part(_WIT["mod"], _WIT["tier"], w["part"])
    except KeyError as e:
        return ("harness", "", str(e))
    wrec = Rec()
    # other open known findings stay excluded while a witness is replayed
    wrec.open_keys = _WIT["open_keys"] - {f.get("key")}
    try:
        with _quiet_stderr():
            part.check(wcase, wrec)
        return ("ok", "", "")
    except Excluded:
        return ("ok", "", "")
    except Violation as v:
        return ("violation", v.clause, v.detail[:3000])
    except InvalidCase as e:
        return ("harness", "", f"invalid: {e}")
    except BaseException as e:  # noqa: BLE001
        import traceback

        return ("harness", "", traceback.format_exc()[-1500:])


def run_property(mod, tier: str, seed: int, t0: float, only_part=None) -> int:
    pid = mod.ID
    findings = load_findings(pid)
    open_keys = {f["key"] for f in findings if f.get("status") == "known" and f.get("key")}
    out_lines: list[str] = []
    violations: list[tuple[str, Path]] = []
    harness_problems: list[str] = []
    witness_report = []

    # 1. witnesses of fixed / known findings (plain regression checks, no Hypothesis), in parallel
    jobs = []
    for fi, f in enumerate(findings):
        w = f.get("witness")
        if not w:
            continue
        for wi, wcase in enumerate(w.get("cases", [w.get("case")])):
            jobs.append((fi, wi))
    _WIT.clear()
    _WIT.update(mod=mod, tier=tier, findings=findings, open_keys=open_keys)
    if jobs:
        import multiprocessing as mp

        if len(jobs) == 1 or os.environ.get("VZ_INLINE") == "1":
            results = [_replay_witness(j) for j in jobs]
        else:
            with mp.get_context("fork").Pool(min(len(jobs), driver.NSHARDS)) as pool:
                results = pool.map(_replay_witness, jobs)
        for (fi, wi), (kind, clause, detail) in zip(jobs, results):
            f = findings[fi]
            w = f["witness"]
            wcase = w.get("cases", [w.get("case")])[wi]
            if kind == "harness":
                harness_problems.append(f"witness of {f.get('key')}: {detail}")
                continue
            failed = kind == "violation"
            witness_report.append({"key": f.get("key"), "status": f["status"], "still_fails": failed})
            if f["status"] == "known":
                if failed and wi == 0:
                    print(f"KNOWN-FINDING: property={pid} {f['what']}")
            elif f["status"] == "fixed" and failed:
                p = _write_replay(pid, w["part"], wcase, clause, detail)
                violations.append((f"fixed finding {f.get('key')} is back: {clause}", p))

    # 2. generated search
    total = driver.ShardResult()
    hyp_evals = 0
    part_summ = []
    exhaustive_parts = []
    all_parts = mod.parts(tier)
    for part in all_parts:
        if only_part and part.name != only_part:
            continue
        tp = time.time()
        res = driver.run_part(part, seed, open_keys)
        part_summ.append({"part": part.name, "evaluations": res.evals,
                          "distinct_nontrivial": len(res.nontrivial),
                          "wall_s": round(time.time() - tp, 1),
                          "budget_exhausted": res.budget_exhausted,
                          "exhaustive": bool(part.exhaustive and not res.budget_exhausted)})
        if part.exhaustive and not res.budget_exhausted:
            exhaustive_parts.append(part.name)
        # failures -> shrink one per signature
        by_sig: dict[str, dict] = {}
        for fl in res.failures:
            cur = by_sig.get(fl["sig"])
            if cur is None or len(json.dumps(fl["case"], default=str)) < len(json.dumps(cur["case"], default=str)):
                by_sig[fl["sig"]] = fl
        budget = 25.0 if tier == "quick" else 120.0
        for i, (sig, fl) in enumerate(sorted(by_sig.items())):
            if i >= 6:
                break
            case = fl["case"]
            rpart = part if fl["part"] == part.name else _find_part(mod, tier, fl["part"])
            if os.environ.get("VZ_NO_SHRINK") != "1" and i < 3 and rpart is part:
                with _quiet_stderr():
                    case = driver.shrink(part, fl, seed, budget)
            detail = fl["detail"]
            try:
                with _quiet_stderr():
                    rpart.check(case, Rec())
            except Violation as v:
                detail = v.detail
            except BaseException:  # noqa: BLE001
                case = fl["case"]
            p = _write_replay(pid, rpart.name, case, sig, detail)
            violations.append((f"{sig}: {detail[:300]}", p))
        if res.harness_errors:
            harness_problems.append(
                f"part {part.name}: {len(res.harness_errors)} harness error(s); first:\n"
                + res.harness_errors[0]["trace"]
                + "\ncase: " + json.dumps(res.harness_errors[0]["case"], default=str)[:1500])
        if res.evals and res.invalid / max(1, res.evals + res.invalid) > 0.02:
            harness_problems.append(
                f"part {part.name}: generator produced {res.invalid} invalid cases of "
                f"{res.evals + res.invalid}; first: "
                + json.dumps(res.invalid_samples[:1], default=str)[:1500])
        total.merge(res)
        if isinstance(part, driver.HypPart):
            hyp_evals += res.evals

    # label coverage demanded by the property's quantifier (relative to the generated cases)
    req = getattr(mod, "REQUIRED_LABELS", {})
    if not only_part and not violations:  # failing cases record no labels
        for lb, frac in req.items():
            have = total.labels.get(lb, 0)
            if have < max(1, frac * hyp_evals) and not total.budget_exhausted:
                harness_problems.append(
                    f"input class {lb!r} under-generated: {have} of {hyp_evals}")

    wall = time.time() - t0
    ev = {
        "property_id": pid,
        "tier": tier,
        "seed": seed,
        "level": mod.LEVEL,
        "coverage": {
            "evaluations": total.evals,
            "distinct_nontrivial": len(total.nontrivial),
            "rule": mod.RULE,
            "samples": total.samples[:6],
            "samples_rendered": _render_samples(mod, total.samples[:6]),
            "exhaustive": bool(exhaustive_parts) and len(exhaustive_parts) == len(all_parts),
            "exhaustive_parts": exhaustive_parts,
            "parts": part_summ,
            "class_distribution": dict(sorted(total.labels.items())),
            "excluded_by_known_finding": dict(total.excluded),
            "rejected_invalid": total.invalid,
            "budget_exhausted": total.budget_exhausted,
            "counters": dict(sorted(total.info.items())),
            "witnesses": witness_report,
            "explanation": getattr(mod, "EXPLANATION", ""),
        },
        "assumptions": list(getattr(mod, "ASSUMPTIONS", [])),
        "wall_s": round(wall, 2),
        "violations": len(violations),
    }
    if not only_part:
        evd = OUT / "evidence"
        evd.mkdir(parents=True, exist_ok=True)
        (evd / f"{pid}.json").write_text(json.dumps(ev, indent=1, default=str) + "\n")

    print(f"[{pid}] tier={tier} seed={seed} evaluations={total.evals} "
          f"distinct_nontrivial={len(total.nontrivial)} excluded={sum(total.excluded.values())} "
          f"invalid={total.invalid} wall={wall:.1f}s")
    for ps in part_summ:
        print(f"    part {ps['part']}: {ps['evaluations']} cases, "
              f"{ps['distinct_nontrivial']} non-trivial, {ps['wall_s']}s"
              + (" (budget exhausted)" if ps["budget_exhausted"] else "")
              + (" [exhaustive]" if ps["exhaustive"] else ""))
    if os.environ.get("VZ_LABELS") == "1":
        for k, v in sorted(total.labels.items()):
            print(f"    label {k}: {v}")
    if harness_problems:
        for h in harness_problems:
            print("HARNESS-ERROR:", h)
        if not violations:
            return 2
    if violations:
        for what, p in violations:
            print(f"  violated: {what}")
            try:
                rp = p.relative_to(VERIF)
            except ValueError:
                rp = p
            print(f"VIOLATION property={pid} replay={rp}")
        return 1
    if not only_part and ev["coverage"]["distinct_nontrivial"] < 2:
        print("HARNESS-ERROR: fewer than 2 non-trivial cases")
        return 2
    return 0
