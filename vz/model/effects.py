"""Effect interposer + crash injection for C13.

Records / interrupts the external effects of a zorg command on the notes directory: file
writes (incl. the truncate-at-open and torn variants), deletions, renames, directory / file
creation and database commits.  The crash is a BaseException (the message bus swallows
``Exception`` raised by event handlers) -- the in-process stand-in for ``kill -9``.
"""

from __future__ import annotations

import contextlib
import io
import pathlib


class Crash(BaseException):
    pass


class Interposer:
    def __init__(self, zdir, crash_at=None, torn=False):
        self.zdir = str(zdir)
        self.crash_at = crash_at
        self.torn = torn
        self.effects = []
        self._busy = False
        self.crashed = None

    # -- bookkeeping
    def _mine(self, path) -> bool:
        p = str(path)
        return p.startswith(self.zdir + "/") and "-journal" not in p

    def _rel(self, path) -> str:
        return str(path)[len(self.zdir) + 1:]

    def _effect(self, kind, path, can_tear=False):
        """Returns True when this effect must be performed torn; raises Crash when it is the crash point."""
        label = f"{kind}:{self._rel(path) if path is not None else 'db'}"
        idx = len(self.effects)
        self.effects.append(label)
        if self.crash_at == idx:
            self.crashed = label
            if self.torn and can_tear:
                return True
            raise Crash(label)
        return False

    @contextlib.contextmanager
    def active(self):
        import sqlalchemy.orm.session as sa_session

        P = pathlib.Path
        from zorg.storage.sql._repo import SQLRepo

        orig = {"write_text": P.write_text, "open": P.open, "unlink": P.unlink, "touch": P.touch,
                "mkdir": P.mkdir, "rename": P.rename, "replace": P.replace, "commit": sa_session.Session.commit,
                "remove": SQLRepo.remove_file_by_name}
        me = self
        me._in_remove = False

        def remove_file_by_name(self, *a, **kw):
            me._in_remove = True
            try:
                return orig["remove"](self, *a, **kw)
            finally:
                me._in_remove = False

        def replace(self, target, *a, **kw):
            if not me._busy and me._mine(self):
                me._effect("replace", self)
            return orig["replace"](self, target, *a, **kw)

        def write_text(self, data, *a, **kw):
            if me._busy or not me._mine(self):
                return orig["write_text"](self, data, *a, **kw)
            torn = me._effect("write_text", self, can_tear=True)
            me._busy = True
            try:
                if torn:
                    orig["write_text"](self, data[: len(data) // 2], *a, **kw)
                    raise Crash(me.crashed + " (torn)")
                return orig["write_text"](self, data, *a, **kw)
            finally:
                me._busy = False

        def open_(self, mode="r", *a, **kw):
            if me._busy or not me._mine(self) or not any(c in mode for c in "wa+x"):
                return orig["open"](self, mode, *a, **kw)
            me._effect("open-w", self)
            real = orig["open"](self, mode, *a, **kw)  # truncates now
            return _BufferedWriter(me, self, real)

        def unlink(self, *a, **kw):
            if not me._busy and me._mine(self) and self.exists():
                me._effect("unlink", self)
            return orig["unlink"](self, *a, **kw)

        def touch(self, *a, **kw):
            if not me._busy and me._mine(self) and not self.exists():
                me._effect("touch", self)
            return orig["touch"](self, *a, **kw)

        def mkdir(self, *a, **kw):
            if not me._busy and me._mine(self) and not self.exists():
                me._effect("mkdir", self)
            return orig["mkdir"](self, *a, **kw)

        def rename(self, target, *a, **kw):
            if not me._busy and me._mine(self):
                me._effect("rename", self)
            return orig["rename"](self, target, *a, **kw)

        def commit(self, *a, **kw):
            me._effect("commit(remove)" if me._in_remove else "commit", None)
            return orig["commit"](self, *a, **kw)

        P.write_text, P.open, P.unlink, P.touch, P.mkdir, P.rename = write_text, open_, unlink, touch, mkdir, rename
        sa_session.Session.commit = commit
        P.replace = replace
        SQLRepo.remove_file_by_name = remove_file_by_name
        try:
            yield self
        finally:
            P.write_text, P.open, P.unlink = orig["write_text"], orig["open"], orig["unlink"]
            P.touch, P.mkdir, P.rename = orig["touch"], orig["mkdir"], orig["rename"]
            sa_session.Session.commit = orig["commit"]
            P.replace = orig["replace"]
            SQLRepo.remove_file_by_name = orig["remove"]


class _BufferedWriter:
    """File opened for writing: already truncated; data reaches the disk at close time, where the
    'flush' boundary (crash => empty file) and its torn variant (first half written) sit."""

    def __init__(self, ip: Interposer, path, real):
        self.ip, self.path, self.real = ip, path, real
        self.buf = io.StringIO()
        self.closed = False

    def write(self, s):
        return self.buf.write(s)

    def __enter__(self):
        return self

    def __exit__(self, et, ev, tb):
        if et is not None:
            self.real.close()
            return False
        self.close()
        return False

    def close(self):
        if self.closed:
            return
        self.closed = True
        data = self.buf.getvalue()
        try:
            torn = self.ip._effect("flush", self.path, can_tear=True)
            if torn:
                self.real.write(data[: len(data) // 2])
                self.real.close()
                raise Crash(self.ip.crashed + " (torn)")
            self.real.write(data)
        finally:
            if not self.real.closed:
                self.real.close()

    def __getattr__(self, name):
        return getattr(self.real, name)
