"""Abstract .zo page (plain JSON), Hypothesis strategies, renderer and reference compiler.

``render(page, today)`` is the only place page text is produced.  In the same pass it computes --
from the abstract page and the property statements, never from zorg's listener -- the notes a
correct compiler must return (reference compiler).

Word      = {"s": text, "m": [[kind, value] ...]}   kind in areas/contexts/people/projects/links/prop/date
Line      = {"ind": "" | "  " | "  * " | "    - " | "      + ", "words": [Word]} | bullet property line
Item      = {"kind", "prio", "modify", "zid", "longdate", "gap", "lines"}
Comment   = {"comment": [Word]}
Block     = {"items": [Item|Comment], "blank": n}
Sec       = {"level", "header": [Word], "nl": blank lines after header, "blocks", "children"}
Page      = {"title": [Word], "head": [[Word]], "blank": n, "body": [Block], "secs": [Sec]}
"""

from __future__ import annotations

from hypothesis import strategies as st

MARK = {1: "#" * 32, 2: "=" * 24, 3: "+" * 16, 4: "-" * 8}
KINDS = ["-", "o", "x", "~", "<", ">"]
KIND_NAME = {"-": "BASIC", "o": "OPEN_TODO", "x": "CLOSED_TODO", "~": "CANCELED_TODO", "<": "BLOCKED_TODO",
             ">": "PARENT_TODO"}
TAGSYM = {"areas": "#", "contexts": "@", "people": "%", "projects": "+"}

# Input classes of open known findings, set before forking (see vz.model.query.OPEN)
OPEN: set = set()


def set_open(keys) -> None:
    OPEN.clear()
    OPEN.update(keys)


# ------------------------------------------------------------------ words

PLAIN = ["foo", "Bar", "baz_1", "a1", "UPPER", "word", "note", "about", "the", "n0", "Zed", "q_q", "alpha", "file",
         "none", "c", "S", "W"]
# six digits that are NOT a calendar date: plain text even as the very first word of a body
FIRST_ODD = ["123456", "999999", "241332", "000000", "2024-02-30", "2023-13-01", "2024-03-32"]
QUOTED_FIRST = ['"TODO"', "'beta'", '"a1"', "'two words'", '"Zed q_q"']
LOOKALIKE = ["o", "x", "P5", "P0", "2024-01-01", "2031-12-31", "2024-02-30", "1234", "0930", "240101", "991231", "240101#zz",
             "000229#0A", "240305#abc"]
SYMBOLS = ["--", "*", "&", "=>", "...", "|", "~", "<", ">", "=", "(", ")", "{x}", "`"]
WRAP_PRE = ["", "", "", "("]
WRAP_POST = ["", "", "", ")", ",", ".", "!", "?", ";", ":"]
URLS = ["https://example.com", "https://example.com/a/b", "http://foo.org/path-part/page"]


def W(s, *m):
    return {"s": s, "m": [list(x) for x in m]}


class Names:
    """Deterministic unique-name supply (so a leaked tag is attributable to its source)."""

    def __init__(self):
        self.n = 0

    def next(self, prefix):
        self.n += 1
        return f"{prefix}{self.n}"


@st.composite
def meta_word(draw, names: Names, keys=None, scope_line=False):
    """A word that carries metadata.  scope_line: the word sits on a title/header line, where any
    DATE token would also be that scope's date (so no date-valued properties there)."""
    k = draw(st.integers(0, 19))
    wrap = draw(st.integers(0, 3)) == 0
    pre = draw(st.sampled_from(WRAP_PRE)) if wrap else ""
    post = draw(st.sampled_from(WRAP_POST)) if wrap else ""
    if k < 6:
        kind = draw(st.sampled_from(list(TAGSYM)))
        name = names.next(draw(st.sampled_from(["t", "Tag", "a_", "x", "o", "P"])))
        return W(pre + TAGSYM[kind] + name + post, (kind, name))
    if k == 6:
        kind = draw(st.sampled_from(list(TAGSYM)))
        return W(TAGSYM[kind] + draw(st.sampled_from(["123", "2024", "0", "42"])))  # all-digit: never a tag
    if k < 9:
        t = names.next(draw(st.sampled_from(["page", "dir/pg", "p", "Pg_"])))
        if draw(st.integers(0, 3)) == 0:
            t += "#" + draw(st.sampled_from(["anchor", "a1", "top"]))
        return W(pre + "[[" + t + "]]" + post, ("links", t))
    if k == 9:
        n = names.next("g")
        return W(pre + "[#" + n + "]" + post, ("links", "global:" + n))
    if k == 10:
        n = names.next("l")
        return W("[^" + n + "]", ("links", "local:" + n))
    if k == 11:
        return W("[^X]")
    if k == 12:
        n = names.next("r")
        return W("[@" + n + "]" + post, ("links", "ref:" + n))
    if k == 13:
        z = draw(st.sampled_from(["240101#ab", "991231#0Z", "240229#zzz"]))
        return W("[" + z + "]", ("links", "zid:" + z))
    if k == 14:
        u = draw(st.sampled_from(URLS))
        return W(u, ("links", "x:" + u))
    # properties
    key = draw(st.sampled_from(keys)) if keys and draw(st.integers(0, 2)) else names.next("k")
    if k in (15, 16):
        if draw(st.integers(0, 2)):
            v = names.next(draw(st.sampled_from(["v", "val_", "High"])))
        else:
            v = draw(st.sampled_from(["12", "o", "P1", "240101", "x", "none"] + ([] if scope_line else ["2024-01-02"])))
        return W(key + "::" + v, ("prop", key, v))
    if k == 17:
        v = names.next("iv")
        return W("[" + key + "::" + v + "]", ("prop", key, v))
    if k == 18:
        vs = [names.next("w"), draw(st.sampled_from(["more", "words", "M+Th", "x"]))]
        form = draw(st.sampled_from(["[%s:: %s]", "[%s::%s]"]))
        if "inline-prop-no-space" in OPEN:
            form = "[%s:: %s]"
        return W(form % (key, " ".join(vs)), ("prop", key, " ".join(vs)))
    # quoted property: ignored
    q = draw(st.sampled_from(["'", '"']))
    return W(q + key + "::hidden" + q)


@st.composite
def plain_word(draw, lookalike_ok: bool):
    k = draw(st.integers(0, 11))
    if k < 6 or (k < 9 and not lookalike_ok):
        s = draw(st.sampled_from(PLAIN))
        if draw(st.integers(0, 4)) == 0:
            s = draw(st.sampled_from(WRAP_PRE)) + s + draw(st.sampled_from(WRAP_POST))
        return W(s)
    if k < 9:
        return W(draw(st.sampled_from(LOOKALIKE)))
    if k == 9:
        return W(draw(st.sampled_from(SYMBOLS)) if lookalike_ok else "n0")
    if k == 10:
        q = draw(st.sampled_from(["'", '"']))
        return W(q + draw(st.sampled_from(PLAIN)) + q)
    return W("((" + draw(st.sampled_from(PLAIN)) + "))")


@st.composite
def words(draw, names, n_min=1, n_max=8, first_plain=True, meta_rate=3, keys=None, scope_line=False):
    n = draw(st.integers(n_min, n_max))
    out = []
    quoted_first = False
    for i in range(n):
        if i == 0 and first_plain and not scope_line and draw(st.integers(0, 9)) == 0:
            # a quoted word in first position: it is the first id of the body, so a date / ZID look-alike
            # behind it is plain text
            w = W(draw(st.sampled_from(QUOTED_FIRST)))
            quoted_first = True
        elif i == 0 and first_plain:
            w = W(draw(st.sampled_from(PLAIN if draw(st.integers(0, 11)) else FIRST_ODD)))
        elif i == 1 and quoted_first and draw(st.booleans()):
            w = W(draw(st.sampled_from(LOOKALIKE)))
        elif draw(st.integers(0, 9)) < meta_rate:
            w = draw(meta_word(names, keys, scope_line))
        else:
            w = draw(plain_word(lookalike_ok=not scope_line))
        out.append(w)
    return out


# ------------------------------------------------------------------ items

_ZID_DATES = ["240101", "240229", "991231", "000103", "231231", "240510"]
_ZID_SUF = ["00", "0A", "zz", "1t", "Az", "000", "abc", "zzz"]
_LONG = ["2024-01-01", "2023-12-31", "2024-02-29", "2000-01-03", "2031-07-15"]


@st.composite
def item(draw, names, rich=True, keys=None, want_zid=None):
    kind = draw(st.sampled_from(KINDS))
    prio = draw(st.one_of(st.none(), st.integers(0, 9))) if kind != "-" else None
    has_zid = draw(st.booleans()) if want_zid is None else want_zid
    zid = (draw(st.sampled_from(_ZID_DATES)) + "#" + draw(st.sampled_from(_ZID_SUF))) if has_zid else None
    modify = draw(st.sampled_from(_ZID_DATES)) if draw(st.integers(0, 3)) == 0 else None
    longdate = draw(st.sampled_from(_LONG)) if (zid is None and modify is None and draw(st.integers(0, 4)) == 0) else None
    gap = 1 if draw(st.integers(0, 5)) else draw(st.integers(2, 4))
    has_field = zid is not None or longdate is not None
    # The first id of the body must not look like a field the item does not have: without ZID /
    # long date the first body word is plain (a date / ZID there *is* the field).
    first = draw(words(names, 1, 6 if rich else 4, first_plain=not has_field, keys=keys))
    if not has_field and modify is None and draw(st.integers(0, 7)) == 0:
        # look-alikes that are plain body text in first position: o / x / a time always; Pn where it
        # cannot be the priority (plain note, priority already written, or not directly after the prefix)
        pool = ["o", "x", "1234"]
        if kind == "-" or prio is not None or gap >= 2:
            pool += ["P1", "P9", "P0"]
        first[0] = W(draw(st.sampled_from(pool)))
    lines = [{"ind": "", "words": first}]
    headline_prop = rich and draw(st.integers(0, 11)) == 0
    if headline_prop:
        # the headline itself is a bullet-style property: "- [fields] key:: value words"
        vs = [draw(st.sampled_from(PLAIN + ["12", "o", "2024-01-02"])) for _ in range(draw(st.integers(1, 4)))]
        lines = [{"ind": "", "bprop": [names.next("hk"), vs]}]
    if rich:
        nb = draw(st.sampled_from([0, 0, 0, 0, 1, 1, 2, 3]))
        have_bullet = False
        level = 0
        for _ in range(nb):
            choice = draw(st.integers(0, 9))
            if choice < 3 and level == 0 and not headline_prop:
                lines.append({"ind": "  ", "words": draw(words(names, 1, 6, first_plain=False, keys=keys))})
            elif choice < 7:
                lines.append({"ind": "  * ", "words": draw(words(names, 1, 6, first_plain=False, keys=keys))})
                level = 1
            elif choice == 7 and level >= 1:
                lines.append({"ind": "    - ", "words": draw(words(names, 1, 5, first_plain=True, keys=keys))})
                level = 2
            elif choice == 8 and level >= 2:
                lines.append({"ind": "      + ", "words": draw(words(names, 1, 4, first_plain=True, keys=keys))})
            elif level or not headline_prop:
                lines.append({"ind": "    " if level else "  ", "words": draw(words(names, 1, 4, first_plain=True, keys=keys))})
        # bullet-style properties at the very end of the item (value = rest of that bullet).  All bullet
        # properties of one note sit on the same bullet level: L1, or inside a "drawer" on L2 / L3.
        nbp = draw(st.sampled_from([0, 0, 0, 1, 2]))
        blevel = draw(st.sampled_from([1, 1, 1, 2, 3])) if nbp else 1
        if blevel >= 2:
            lines.append({"ind": "  * ", "words": [W(draw(st.sampled_from(["PROPERTY:", "drawer", "META:"])))]})
        if blevel == 3:
            lines.append({"ind": "    - ", "words": [W(draw(st.sampled_from(["sub:", "more", "list:"])))]})
        for _ in range(nbp):
            key = names.next("bk")
            vs = [draw(st.sampled_from(PLAIN + ["12", "o", "x", "2024-01-02"])) for _ in range(draw(st.integers(1, 4)))]
            lines.append({"ind": {1: "  * ", 2: "    - ", 3: "      + "}[blevel], "bprop": [key, vs]})
    if rich and zid and len(lines) > 1 and "words" in lines[0] and draw(st.integers(0, 11)) == 0:
        # the headline is nothing but the prefix fields (ZID, dates); the text lives in the bullets
        lines[0] = {"ind": "", "words": []}
    if rich and len(lines) > 1 and "words" in lines[0] and lines[1]["ind"] in ("  * ", "  ") and draw(st.integers(0, 13)) == 0:
        # an empty bullet right below the headline (not below a headline *property*: whether a bare "  *"
        # ends that property's value is not specified anywhere)
        lines.insert(1, {"ind": "  *", "words": []})
    if len(lines) > 1 and draw(st.integers(0, 5)) == 0:
        # a line (not the last one) that ends in a blank: part of the body, verbatim
        lines[draw(st.integers(0, len(lines) - 2))]["trail"] = draw(st.sampled_from([" ", "  "]))
    return {"kind": kind, "prio": prio, "modify": modify, "zid": zid, "longdate": longdate, "gap": gap,
            "lines": lines}


def line_text(ln) -> str:
    if "bprop" in ln:
        if not ln["bprop"][1]:
            return ln["ind"] + ln["bprop"][0] + "::" + ln.get("trail", "")  # a property left empty
        return ln["ind"] + ln["bprop"][0] + ":: " + " ".join(ln["bprop"][1]) + ln.get("trail", "")
    return ln["ind"] + " ".join(w["s"] for w in ln["words"]) + ln.get("trail", "")


def line_meta(ln):
    if "bprop" in ln:
        return [["prop", ln["bprop"][0], " ".join(ln["bprop"][1])]]
    out = []
    for w in ln["words"]:
        out.extend(w["m"])
    return out


def item_first_line(it) -> str:
    s = it["kind"]
    if it["prio"] is not None:
        s += f" P{it['prio']}"
    s += " " * it["gap"]
    fields = []
    if it["modify"]:
        fields.append(it["modify"])
    if it["zid"]:
        fields.append(it["zid"])
    if it["longdate"]:
        fields.append(it["longdate"])
    rest = line_text(it["lines"][0])
    return s + " ".join(fields + ([rest] if rest else []))


def item_lines(it) -> list:
    return [item_first_line(it)] + [line_text(ln) for ln in it["lines"][1:]]


def item_body(it) -> str:
    """Body text: everything after the kind/priority prefix, outer whitespace stripped."""
    ls = item_lines(it)
    prefix = it["kind"] + (f" P{it['prio']}" if it["prio"] is not None else "")
    first = ls[0][len(prefix):]
    return "\n".join([first] + ls[1:]).strip()


@st.composite
def comment(draw, names):
    if draw(st.integers(0, 4)) == 0:
        return {"comment": []}
    decoys = [[W("-"), W("not"), W("a"), W("note")], [W("o"), W("P1"), W("nope")],
              [W("x"), W("240101#zz"), W("decoy")]]
    if draw(st.integers(0, 2)) == 0:
        return {"comment": draw(st.sampled_from(decoys))}
    return {"comment": draw(words(names, 1, 5, first_plain=False))}


@st.composite
def block(draw, names, rich=True, keys=None, max_items=3):
    n = draw(st.integers(1, max_items))
    items = []
    for _ in range(n):
        if draw(st.integers(0, 7)) == 0:
            items.append(draw(comment(names)))
        else:
            items.append(draw(item(names, rich=rich, keys=keys)))
    if not any("kind" in i for i in items):
        items.append(draw(item(names, rich=rich, keys=keys)))
    return {"items": items, "blank": draw(st.sampled_from([1, 1, 1, 2, 3]))}


def skeletons(max_len: int):
    """All legal header-level sequences (first in {1,2}; next <= previous + 1) up to max_len."""
    out = []

    def rec(seq):
        if seq:
            out.append(list(seq))
        if len(seq) == max_len:
            return
        for lv in (1, 2, 3, 4):
            if not seq:
                ok = lv in (1, 2)
            else:
                ok = lv <= seq[-1] + 1
            if ok:
                rec(seq + [lv])

    rec([])
    return out


@st.composite
def skeleton(draw, max_len=8):
    n = draw(st.integers(0, max_len))
    seq = []
    for _ in range(n):
        if not seq:
            seq.append(draw(st.sampled_from([1, 2])))
        else:
            seq.append(draw(st.integers(1, min(4, seq[-1] + 1))))
    return seq


@st.composite
def header_words(draw, names, keys=None, decorated=True):
    ws = [W(names.next(draw(st.sampled_from(["Sec", "H", "Part"]))))]
    if decorated:
        for _ in range(draw(st.integers(0, 3))):
            ws.append(draw(meta_word(names, keys, scope_line=True)))
        if draw(st.integers(0, 3)) == 0:
            d = draw(st.sampled_from(_LONG))
            ws.append(W(d, ("date", d)))
        if draw(st.integers(0, 2)) == 0:
            ws.append(W(draw(st.sampled_from(PLAIN))))
    return ws


def nest(levels, headers, blocks_per, nls):
    """Flat (level, header, blocks) list -> nested Sec list."""
    root = []
    stack = []  # (level, sec)
    for lv, hd, bl, nl in zip(levels, headers, blocks_per, nls):
        sec = {"level": lv, "header": hd, "nl": nl, "blocks": bl, "children": []}
        while stack and stack[-1][0] >= lv:
            stack.pop()
        if stack:
            stack[-1][1]["children"].append(sec)
        else:
            root.append(sec)
        stack.append((lv, sec))
    return root


@st.composite
def page(draw, rich=True, max_headers=8, shared_keys=False, levels=None, plain_scopes=False):
    names = Names()
    keys = ["k", "due", "p"] if shared_keys else None
    if plain_scopes:
        # no metadata on title / header lines: every note carries only what is written in it
        if levels is None:
            levels = draw(skeleton(max_headers))
        return {"title": [W("Title")], "head": [], "blank": 1,
                "body": [draw(block(names, rich, keys)) for _ in range(draw(st.sampled_from([0, 1, 1, 2])))],
                "secs": nest(levels, [[W(names.next("Sec"))] for _ in levels],
                             [[draw(block(names, rich, keys, max_items=2)) for _ in range(draw(st.sampled_from([0, 1, 1])))]
                              for _ in levels], [0 for _ in levels])}
    title = [W(draw(st.sampled_from(["Title", "Page", "A"])))] + draw(
        words(names, 0, 3, first_plain=False, keys=keys, scope_line=True))
    if draw(st.integers(0, 3)) == 0:
        d = draw(st.sampled_from(_LONG))
        title.append(W(d, ("date", d)))
    bare_title = draw(st.integers(0, 7)) == 0
    if bare_title:
        # the page starts with a bare '#': that empty line *is* the title line, so the tags, links and date
        # of the header lines that follow are those of "later header lines"
        title = []
    head = []
    for _ in range(max(1 if bare_title else 0, draw(st.sampled_from([0, 0, 1, 2, 3])))):
        if draw(st.integers(0, 3)) == 0 and not (bare_title and not head):
            head.append([])
        else:
            hl = draw(words(names, 1, 4, first_plain=False, keys=keys, scope_line=True))
            if draw(st.integers(0, 3)) == 0:
                hl.append(W("2022-02-02"))  # a date on a later head line is not the page's date
            head.append(hl)
    body = [draw(block(names, rich, keys)) for _ in range(draw(st.sampled_from([0, 1, 1, 2])))]
    if levels is None:
        levels = draw(skeleton(max_headers))
    headers = [draw(header_words(names, keys)) for _ in levels]
    blocks_per = [[draw(block(names, rich, keys, max_items=2)) for _ in range(draw(st.sampled_from([0, 1, 1, 1, 2])))]
                  for _ in levels]
    nls = [draw(st.sampled_from([0, 0, 1, 2])) for _ in levels]
    return {"title": title, "head": head, "blank": draw(st.sampled_from([1, 1, 2])), "body": body,
            "secs": nest(levels, headers, blocks_per, nls)}


# ------------------------------------------------------------------ render + reference compiler

def _date(s):
    return s


def _zid_date(zid: str) -> str:
    return "20%s-%s-%s" % (zid[:2], zid[2:4], zid[4:6])


def _short_to_iso(s: str) -> str:
    return "20%s-%s-%s" % (s[:2], s[2:4], s[4:6])


def _scope_of(wordlist):
    tags = {"areas": set(), "contexts": set(), "people": set(), "projects": set(), "links": set()}
    props = {}
    date = None
    for w in wordlist:
        for m in w["m"]:
            if m[0] == "prop":
                props[m[1]] = m[2]
            elif m[0] == "date":
                date = m[1]
            else:
                tags[m[0]].add(m[1])
    return tags, props, date


def render(pg, today: str):
    """-> (text, expected notes, stats).  today is ISO."""
    out = []
    notes = []
    stats = {"items": 0, "multi": 0, "h34": 0, "nozid_in_sec": 0, "lookalike": 0, "full_prefix": 0, "comments": 0,
             "gap": 0, "bprop": 0, "headers": 0}

    def emit(s):
        out.append(s)

    t_tags, t_props, t_date = _scope_of(pg["title"])
    emit("# " + " ".join(w["s"] for w in pg["title"]) if pg["title"] else "#")
    file_props = dict(t_props)
    for hl in pg["head"]:
        emit("#" + ("" if not hl else " " + " ".join(w["s"] for w in hl)))
        _, hp, _ = _scope_of(hl)
        file_props.update(hp)
    has_content = bool(pg["body"] or pg["secs"])
    if has_content:
        for _ in range(pg["blank"]):
            emit("")

    def do_block(bl, chain, last=False):
        for it in bl["items"]:
            if "comment" in it:
                emit("#" + ("" if not it["comment"] else " " + " ".join(w["s"] for w in it["comment"])))
                stats["comments"] += 1
                continue
            line_no = len(out) + 1
            for s in item_lines(it):
                emit(s)
            own = {"areas": set(), "contexts": set(), "people": set(), "projects": set(), "links": set()}
            own_props = {}
            bprops = {}
            for ln in it["lines"]:
                for m in line_meta(ln):
                    if m[0] == "prop":
                        (bprops if "bprop" in ln else own_props)[m[1]] = m[2]
                    elif m[0] != "date":
                        own[m[0]].add(m[1])
            own_props.update(bprops)
            tags = {k: set(t_tags[k]) | own[k] for k in own}
            props = dict(file_props)
            sec_date = None
            for sec in chain:
                st_, sp_, sd_ = _scope_of(sec["header"])
                for k in tags:
                    tags[k] |= st_[k]
                props.update(sp_)
                if sd_:
                    sec_date = sd_
            props.update(own_props)
            if it["zid"]:
                create = _zid_date(it["zid"])
            elif it["longdate"]:
                create = it["longdate"]
            elif sec_date:
                create = sec_date
            elif t_date:
                create = t_date
            else:
                create = today
            modify = _short_to_iso(it["modify"]) if it["modify"] else create
            notes.append({
                "kind": KIND_NAME[it["kind"]],
                "priority": (f"P{it['prio']}" if it["prio"] is not None else "P3") if it["kind"] != "-" else None,
                "body": item_body(it),
                "line": line_no,
                "zid": it["zid"],
                "create": create,
                "modify": modify,
                "areas": sorted(tags["areas"]), "contexts": sorted(tags["contexts"]),
                "people": sorted(tags["people"]), "projects": sorted(tags["projects"]),
                "links": sorted(tags["links"]),
                "props": props,
                "section": [" ".join(w["s"] for w in s["header"]) for s in chain],
                "levels": [s["level"] for s in chain],
            })
            stats["items"] += 1
            if len(it["lines"]) > 1:
                stats["multi"] += 1
            if chain and chain[-1]["level"] >= 3:
                stats["h34"] += 1
            if chain and not it["zid"]:
                stats["nozid_in_sec"] += 1
            if it["prio"] is not None and it["modify"] and it["zid"]:
                stats["full_prefix"] += 1
            if it["gap"] > 1:
                stats["gap"] += 1
            if any("bprop" in ln for ln in it["lines"]):
                stats["bprop"] += 1
            body_words = [w["s"] for ln in it["lines"] if "words" in ln for w in ln["words"]]
            if any(w in LOOKALIKE for w in body_words[1:]):
                stats["lookalike"] += 1
        for _ in range(bl["blank"]):
            emit("")

    for bl in pg["body"]:
        do_block(bl, [])

    def do_sec(sec, chain):
        stats["headers"] += 1
        emit(MARK[sec["level"]] + " " + " ".join(w["s"] for w in sec["header"]))
        for _ in range(sec["nl"]):
            emit("")
        ch = chain + [sec]
        for bl in sec["blocks"]:
            do_block(bl, ch)
        for c in sec["children"]:
            do_sec(c, ch)

    for sec in pg["secs"]:
        do_sec(sec, [])
    text = "\n".join(out) + "\n"
    return text, notes, stats


# ------------------------------------------------------------------ flatten a compiled zorg Page

def dump_note(n) -> dict:
    tp = n.todo_payload
    return {
        "kind": (tp.status.name if tp else "BASIC"),
        "priority": (tp.priority if tp else None),
        "body": n.body,
        "line": n.line_no,
        "zid": n.zid,
        "create": n.create_date.isoformat(),
        "modify": n.modify_date.isoformat(),
        "areas": sorted(n.areas), "contexts": sorted(n.contexts), "people": sorted(n.people),
        "projects": sorted(n.projects), "links": sorted(n.links),
        "props": dict(n.properties),
    }


def independent_parse(text: str):
    """Parse with the generated file parser and OUR listeners -> (lexer errors, parser errors, tree)."""
    import antlr4
    from antlr4.error.ErrorListener import ErrorListener
    from zorg.grammar.zorg_file.ZorgFileLexer import ZorgFileLexer
    from zorg.grammar.zorg_file.ZorgFileParser import ZorgFileParser

    lex_errs, par_errs = [], []

    class L(ErrorListener):
        def __init__(self, sink):
            super().__init__()
            self.sink = sink

        def syntaxError(self, recognizer, offendingSymbol, line, column, msg, e):
            self.sink.append(f"{line}:{column} {msg}")

    lexer = ZorgFileLexer(antlr4.InputStream(text))
    lexer.removeErrorListeners()
    lexer.addErrorListener(L(lex_errs))
    parser = ZorgFileParser(antlr4.CommonTokenStream(lexer))
    parser.removeErrorListeners()
    parser.addErrorListener(L(par_errs))
    tree = parser.prog()
    return lex_errs, par_errs, tree


# ------------------------------------------------------------------ directories of pages

_SUFFIX_ALPHABET = [c for c in "0123456789ABCDEFGHIJKLMNOPQRSTUVWXYZabcdefghijklmnopqrstuvwxyz" if c not in "IOQSgijlpqy"]


def _suffix(n: int) -> str:
    """n-th planted suffix: high in the chain, so ZIDs allocated during a check never collide;
    every third one is a three-character suffix."""
    a = _SUFFIX_ALPHABET  # 51 characters
    if n % 3 == 2:
        m = n // 3
        return "z" + a[(m // 51) % 51] + a[m % 51]
    m = n - n // 3
    return a[40 + (m // 51) % 11] + a[m % 51]


def iter_items(pg):
    for bl in pg["body"]:
        for it in bl["items"]:
            if "kind" in it:
                yield it

    def rec(sec):
        for bl in sec["blocks"]:
            for it in bl["items"]:
                if "kind" in it:
                    yield it
        for c in sec["children"]:
            yield from rec(c)

    for s in pg["secs"]:
        yield from rec(s)


def make_zids_unique(pages: list) -> None:
    """Rewrite the ZIDs written in a list of abstract pages so that no two items share one
    (the date part is kept; suffixes start high so freshly allocated ZIDs never collide)."""
    n = 0
    for pg in pages:
        for it in iter_items(pg):
            if it["zid"]:
                it["zid"] = it["zid"].split("#")[0] + "#" + _suffix(n)
                n += 1


@st.composite
def directory(draw, n_min=1, n_max=3, rich=True, max_headers=3, all_zids=False, plain_scopes=False,
              canonical_spacing=False):
    names = draw(st.lists(st.sampled_from(["a", "b", "ab", "notes", "sub/a", "sub/c", "p_1", "x", "2024/log"]),
                          min_size=n_min, max_size=n_max, unique=True))
    pages = [draw(page(rich=rich, max_headers=max_headers, plain_scopes=plain_scopes)) for _ in names]
    if all_zids:
        for pg in pages:
            for it in iter_items(pg):
                if not it["zid"]:
                    it["zid"] = "240510#00"
                    it["longdate"] = None
    if canonical_spacing:
        for pg in pages:
            for it in iter_items(pg):
                it["gap"] = 1
    make_zids_unique(pages)
    return {n + ".zo": pg for n, pg in zip(names, pages)}
