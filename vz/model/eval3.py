"""Independent three-valued evaluator of query filter ASTs over raw index rows (C03, C09, C15).

``ev_or(or_ast, row, ctx)`` -> True | False | None (Unknown).  Unknown is returned exactly where
the property leaves the verdict to an unspecified coercion: comparing a note value that is not an
integer as integer, or not a YYYY-MM-DD date as date.  ``ctx`` = {"today": (y, m, d), "rows": all rows}.
"""

from __future__ import annotations

import re

from . import query as Q

_LONG = re.compile(r"^\d{4}-\d\d-\d\d$")


def k_not(v):
    return None if v is None else (not v)


def k_and(vals):
    out = True
    for v in vals:
        if v is False:
            return False
        if v is None:
            out = None
    return out


def k_or(vals):
    out = False
    for v in vals:
        if v is True:
            return True
        if v is None:
            out = None
    return out


def ev_or(o, row, ctx):
    return k_or(ev_and(af, row, ctx) for af in o["ands"])


def ev_and(af, row, ctx):
    """Kinds of one group pool into one membership set, priorities into another; the rest is conjoined."""
    kinds, prios, others = set(), set(), []
    for a in af["atoms"]:
        if a["t"] == "kinds":
            for w in a["words"]:
                kinds.update(Q._KIND_NAME[ch] for ch in w)
        elif a["t"] == "prio":
            hi = a["m"] if a["m"] is not None else a["n"]
            prios.update(f"P{p}" for p in range(a["n"], hi + 1))
        else:
            others.append(a)
    vals = []
    if kinds:
        vals.append(row["kind"] in kinds)
    if prios:
        vals.append(row["priority"] in prios)
    vals.extend(ev_atom(a, row, ctx) for a in others)
    return k_and(vals)


def _glob_match(glob: str, path: str) -> bool:
    """`*` matches any run of characters; everything else is literal; whole-path match."""
    parts = glob.split("*")
    if len(parts) == 1:
        return glob == path
    if not path.startswith(parts[0]):
        return False
    pos = len(parts[0])
    for mid in parts[1:-1]:
        i = path.find(mid, pos)
        if i < 0:
            return False
        pos = i + len(mid)
    return len(path) - pos >= len(parts[-1]) and path.endswith(parts[-1])


def _cmp(op, a, b):
    return {"eq": a == b, "lt": a < b, "le": a <= b, "gt": a > b, "ge": a >= b}[op]


def ev_atom(a, row, ctx):
    t = a["t"]
    if t == "sub":
        return ev_or(a["or"], row, ctx)
    if t == "tag":
        have = a["name"] in row[Q._TAG_FIELD[a["kind"]]]
        return (not have) if a["neg"] else have
    if t in ("create", "modify"):
        s = Q.iso(Q.resolve_date(a["start"], ctx["today"]))
        e = Q.iso(Q.resolve_date(a["end"], ctx["today"])) if a["end"] is not None else s
        return s <= row[t] <= e
    if t == "prop":
        has = a["key"] in row["props"]
        if a["op"] == "exists":
            return (not has) if a["neg"] else has
        if not has:
            return False  # a negated comparison keeps the requirement that the property exists
        nv = row["props"][a["key"]]
        vt = Q.value_type(a["value"])
        if vt == "DATE":
            fv = a["value"]
            if re.match(r"^\d{6}$", fv):
                fd = Q.iso((2000 + int(fv[:2]), int(fv[2:4]), int(fv[4:6])))
            elif _LONG.match(fv):
                fd = fv
            else:
                m = re.match(r"^(-?)(\d+)([dmyDMY])$", fv)
                fd = Q.iso(Q.resolve_date({"k": "rel", "n": int(m.group(2)), "u": m.group(3).lower(),
                                           "neg": bool(m.group(1))}, ctx["today"]))
            if not _LONG.match(nv) or not _valid_date(nv):
                return None
            r = _cmp(a["op"], nv, fd)
        elif vt == "INTEGER":
            if not nv.isdigit():
                return None
            r = _cmp(a["op"], int(nv), int(a["value"]))
        else:
            r = _cmp(a["op"], nv, a["value"])
        return (not r) if a["neg"] else r
    if t == "desc":
        text = a["text"]
        cs = a["c"] or any(ch.isupper() for ch in text)
        if cs:
            r = text in row["body"]
        else:
            r = text.lower() in row["body"].lower()
        return (not r) if a["neg"] else r
    if t == "file":
        g = Q.glob_text(a)
        g = g if g.endswith("*") else g + ".zo"
        r = _glob_match(g, row["page"])
        return (not r) if a["neg"] else r
    if t == "link":
        p = a["page"]
        targets = {p}
        for other in ctx["rows"]:
            if other["page"] == p + ".zo":
                if other["zid"]:
                    targets.add("zid:" + other["zid"])
                if "ID" in other["props"]:
                    targets.add("global:" + other["props"]["ID"])
                if "RID" in other["props"]:
                    targets.add("ref:" + other["props"]["RID"])
        r = any(l in targets or l.startswith(p + "#") for l in row["links"])
        return (not r) if a["neg"] else r
    raise ValueError(t)


def _valid_date(s: str) -> bool:
    y, m, d = int(s[:4]), int(s[5:7]), int(s[8:10])
    return 1 <= m <= 12 and 1 <= d <= Q.mdays(y, m)
