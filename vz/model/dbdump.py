"""Canonical, ORM-independent dump of .zorg/zorg.db (plain sqlite3).

The "independent read of the universe" for C03/C05/C06/C08/C09/C11/C13: surrogate ids and orphan
rows in tag tables (not observable by any query) are left out.
"""

from __future__ import annotations

import sqlite3
from pathlib import Path


def _rows(con, sql, args=()):
    cur = con.execute(sql, args)
    cols = [c[0] for c in cur.description]
    return [dict(zip(cols, r)) for r in cur.fetchall()]


def dump(zdir: Path) -> dict:
    db = Path(zdir) / ".zorg" / "zorg.db"
    if not db.exists():
        return {"pages": [], "notes": []}
    con = sqlite3.connect(f"file:{db}?mode=ro", uri=True)
    try:
        return _dump(con)
    finally:
        con.close()


def _dump(con) -> dict:
    pages = _rows(con, "select id, path, has_errors from page order by id")
    h1 = {r["id"]: r for r in _rows(con, "select * from h1")}
    h2 = {r["id"]: r for r in _rows(con, "select * from h2")}
    h3 = {r["id"]: r for r in _rows(con, "select * from h3")}
    h4 = {r["id"]: r for r in _rows(con, "select * from h4")}
    page_by_id = {p["id"]: p for p in pages}
    blocks = _rows(con, "select * from block order by id")

    def chain(b):
        """-> (page path or None, [titles h1..], section key)"""
        titles = []
        key = None
        if b["h4_id"] is not None and b["h4_id"] in h4:
            s4 = h4[b["h4_id"]]
            s3 = h3.get(s4["h3_id"])
            s2 = h2.get(s3["h2_id"]) if s3 else None
            s1 = h1.get(s2["h1_id"]) if s2 else None
            titles = [s1 and s1["title"], s2 and s2["title"], s3 and s3["title"], s4["title"]]
            key = ("h4", b["h4_id"])
        elif b["h3_id"] is not None and b["h3_id"] in h3:
            s3 = h3[b["h3_id"]]
            s2 = h2.get(s3["h2_id"])
            s1 = h1.get(s2["h1_id"]) if s2 else None
            titles = [s1 and s1["title"], s2 and s2["title"], s3["title"]]
            key = ("h3", b["h3_id"])
        elif b["h2_id"] is not None and b["h2_id"] in h2:
            s2 = h2[b["h2_id"]]
            s1 = h1.get(s2["h1_id"])
            titles = [s1 and s1["title"], s2["title"]]
            key = ("h2", b["h2_id"])
        elif b["h1_id"] is not None and b["h1_id"] in h1:
            s1 = h1[b["h1_id"]]
            titles = [s1["title"]]
            key = ("h1", b["h1_id"])
        else:
            s1 = None
        pg = page_by_id.get(s1["page_id"]) if s1 else None
        return (pg["path"] if pg else None), titles, key

    block_info = {}
    ordinal = {}
    for b in blocks:
        ppath, titles, key = chain(b)
        ordinal[key] = ordinal.get(key, -1) + 1
        block_info[b["id"]] = (ppath, titles, ordinal[key])

    def tags(table, link, col):
        out = {}
        for r in _rows(con, f"select l.note_id as nid, t.name as name from {link} l join {table} t on t.id = l.{col}"):
            out.setdefault(r["nid"], []).append(r["name"])
        return out

    areas = tags("area", "arealink", "area_id")
    contexts = tags("context", "contextlink", "context_id")
    people = tags("person", "personlink", "person_id")
    projects = tags("project", "projectlink", "project_id")
    links = tags("link", "linklink", "link_id")
    props = {}
    for r in _rows(con, "select l.note_id as nid, p.name as name, l.value as value from propertylink l "
                        "join property p on p.id = l.prop_id"):
        props.setdefault(r["nid"], {})[r["name"]] = r["value"]

    notes = []
    in_block = {}
    for n in _rows(con, "select * from note order by id"):
        bi = block_info.get(n["block_id"], (None, [], None))
        in_block[n["block_id"]] = in_block.get(n["block_id"], -1) + 1
        status = n["todo_status"]
        notes.append({
            "page": n["page_path"],
            "block_page": bi[0],
            "line": n["line_no"],
            "section": [t for t in bi[1]],
            "block_id": n["block_id"],
            "zid": n["zid"],
            "kind": status if status is not None else "BASIC",
            "priority": n["todo_priority"],
            "body": n["body"],
            "create": str(n["create_date"]),
            "modify": str(n["modify_date"]),
            "areas": sorted(areas.get(n["id"], [])),
            "contexts": sorted(contexts.get(n["id"], [])),
            "people": sorted(people.get(n["id"], [])),
            "projects": sorted(projects.get(n["id"], [])),
            "links": sorted(links.get(n["id"], [])),
            "props": dict(sorted(props.get(n["id"], {}).items())),
        })
    notes.sort(key=lambda d: (d["page"] or "", d["line"], d["zid"] or ""))
    return {"pages": sorted((p["path"], int(bool(p["has_errors"]))) for p in pages), "notes": notes}


def flatten_compiled(zdir: Path, rel: str) -> list:
    """walk_zorg_page on a file, flattened into the same shape as dump()['notes']."""
    from zorg.service.compiler import walk_zorg_page

    page = walk_zorg_page(Path(zdir), Path(rel))
    out = []

    def do_section(sec, titles):
        for bi, bl in enumerate(sec.blocks):
            for ni, n in enumerate(bl.notes):
                tp = n.todo_payload
                out.append({
                    "page": rel, "block_page": rel, "line": n.line_no, "section": list(titles), "block": bi,
                    "pos": ni, "zid": n.zid,
                    "kind": tp.status.name if tp else "BASIC", "priority": tp.priority if tp else None,
                    "body": n.body, "create": n.create_date.isoformat(), "modify": n.modify_date.isoformat(),
                    "areas": sorted(n.areas), "contexts": sorted(n.contexts), "people": sorted(n.people),
                    "projects": sorted(n.projects), "links": sorted(n.links),
                    "props": dict(sorted(n.properties.items())),
                })

    h1s = ([page.h0] if page.h0 else []) + list(page.h1s)
    for s1 in h1s:
        do_section(s1, [s1.title])
        for s2 in s1.h2s:
            do_section(s2, [s1.title, s2.title])
            for s3 in s2.h3s:
                do_section(s3, [s1.title, s2.title, s3.title])
                for s4 in s3.h4s:
                    do_section(s4, [s1.title, s2.title, s3.title, s4.title])
    out.sort(key=lambda d: (d["page"], d["line"], d["zid"] or ""))
    return page.has_errors, out
