"""Query AST (plain JSON), Hypothesis strategies, renderers, denotation and calendar arithmetic.

The AST is the *source of truth* of a generated query: ``render`` turns it into text in one of
many spellings, ``denote`` computes -- independently of zorg's listener -- the structure the
text is supposed to compile to (C04), and ``vz.model.eval3`` evaluates it over raw index rows
(C03, C09, C15).
"""

from __future__ import annotations

import re

from hypothesis import strategies as st

# ------------------------------------------------------------------ lexical facts of ZorgQuery.g4
# implicit literal tokens that beat ID / SYMBOL in the generated lexer
RESERVED = {"S", "W", "O", "G", "c", "note", "prop", "links", "count",
            "1", "2", "3", "4", "5", "6", "7", "8", "9"}
KEYWORDS = ["file", "none", "type", "priority", "alpha", "create", "modify", "section"]
_REL_RE = re.compile(r"^-?\d+[dmy]$")
_SHORT_RE = re.compile(r"^\d\d[01]\d[0-3]\d$")
_LONG_RE = re.compile(r"^\d{4}-\d\d-\d\d$")

SAFE_IDS = ["foo", "bar", "baz_1", "Quux", "a1", "due", "recur", "proj", "home", "work", "k", "v2",
            "alpha_beta", "Z9", "n0te", "ID", "LID", "rid7", "tag", "t_1", "abc", "x1", "o2", "zz"]
ODD_IDS = KEYWORDS + ["o", "x", "P5", "P0", "1230", "0915", "2024-01-02", "240101#ab", "240101#0Zz",
                      "12", "007", "12ab", "oo", "xo", "ox", "Px", "9lives"]
ORDER_KEYS = ["alpha", "create", "modify", "priority", "type", "none"]
GROUP_DIMS = ["file", "section", "type", "priority", "none", "@", "#", "%", "+"]
SELECT_FIELDS = ["file", "note", "prop", "links", "@", "#", "+", "%", "propval"]
KIND_CHARS = "-ox~<>"

_COLON_TRAP = re.compile(r"^(-?\d+[dmy]|\d\d[01]\d[0-3]\d)")


def colon_trap(s: str) -> bool:
    """':' + s starts with something the lexer turns into one DATE_RANGE_TAIL token."""
    return bool(_COLON_TRAP.match(s))


# Input classes of *open* known findings (set from known_findings.json before forking):
# strategies do not generate them, so the search continues behind them.
OPEN: set = set()


def set_open(keys) -> None:
    OPEN.clear()
    OPEN.update(keys)


# ------------------------------------------------------------------ calendar (own arithmetic)
_MD = [31, 28, 31, 30, 31, 30, 31, 31, 30, 31, 30, 31]


def leap(y: int) -> bool:
    return y % 4 == 0 and (y % 100 != 0 or y % 400 == 0)


def mdays(y: int, m: int) -> int:
    return 29 if (m == 2 and leap(y)) else _MD[m - 1]


def to_ord(y: int, m: int, d: int) -> int:
    """Days since 0001-01-01 (=1), own implementation."""
    y0 = y - 1
    n = y0 * 365 + y0 // 4 - y0 // 100 + y0 // 400
    for mm in range(1, m):
        n += mdays(y, mm)
    return n + d


def from_ord(n: int):
    y = max(1, n // 366)
    while to_ord(y + 1, 1, 1) <= n:
        y += 1
    m = 1
    while m < 12 and to_ord(y, m + 1, 1) <= n:
        m += 1
    return y, m, n - to_ord(y, m, 1) + 1


def add_days(ymd, n):
    return from_ord(to_ord(*ymd) + n)


def add_months(ymd, n):
    y, m, d = ymd
    t = (y * 12 + (m - 1)) + n
    y2, m2 = t // 12, t % 12 + 1
    return y2, m2, min(d, mdays(y2, m2))


def add_years(ymd, n):
    y, m, d = ymd
    return y + n, m, min(d, mdays(y + n, m))


def resolve_date(spec: dict, today):
    """date spec -> (y, m, d)."""
    if spec["k"] == "short":
        v = spec["v"]
        return 2000 + int(v[:2]), int(v[2:4]), int(v[4:6])
    n = -spec["n"] if spec.get("neg") else spec["n"]
    if spec["u"] == "d":
        return add_days(today, n)
    if spec["u"] == "m":
        return add_months(today, n)
    return add_years(today, n)


def date_text(spec: dict) -> str:
    if spec["k"] == "short":
        return spec["v"]
    return ("-" if spec.get("neg") else "") + str(spec["n"]) + spec["u"]


def iso(ymd) -> str:
    return "%04d-%02d-%02d" % ymd


# ------------------------------------------------------------------ strategies

def ids(odd: bool = True):
    pool = SAFE_IDS + (ODD_IDS if odd else [])
    return st.sampled_from(pool)


_PROP_KEYS = st.sampled_from(["due", "recur", "p", "k", "ID", "LID", "n_1", "file", "type", "none", "create",
                              "1230", "2024-01-02", "240101#ab", "key2"])
_VALID_DAYS = ["240101", "240131", "240229", "240301", "231231", "250101", "000103", "240630", "991231", "240102",
               "240105", "240110"]


@st.composite
def date_spec(draw):
    if draw(st.integers(0, 2)) == 0:
        return {"k": "short", "v": draw(st.sampled_from(_VALID_DAYS))}
    u = draw(st.sampled_from("dmy"))
    n = draw(st.integers(0, {"d": 800, "m": 40, "y": 30}[u]))
    return {"k": "rel", "n": n, "u": u, "neg": draw(st.booleans())}


_DESC_WORDS_CLEAN = ["foo", "Foo", "bar", "the", "100%", "a_b", "back\\slash", "x", "o", "P1", "due:", "#tag", "@home",
                     "+prj", "%bob", "a.b", "a-b", "~", "{x}", "`q`", "semi;", "com,ma", "eq=10", "q?", "*", "&&",
                     "k::v", "[x]", "$", "^", "<", ">", "(p)", "file", "type", "12", "UPPER", "mIxEd", "e"]
_DESC_WORDS_RESERVED = ["note", "top 5", "wow!", "a|b", "S", "c", "count", "links", "[[p]]", "<=", "f=x", "1",
                        "240101", "^3d", "$240101", "prop", "eq=1"]


@st.composite
def desc_atom(draw, allow_reserved=True):
    quote = draw(st.sampled_from(["'", '"']))
    other = '"' if quote == "'" else "'"
    reserved = allow_reserved and "quoted-reserved-token" not in OPEN and draw(st.integers(0, 6)) == 0
    n = draw(st.integers(1, 3))
    words = [draw(st.sampled_from(_DESC_WORDS_CLEAN)) for _ in range(n)]
    if reserved:
        words[draw(st.integers(0, n - 1))] = draw(st.sampled_from(_DESC_WORDS_RESERVED))
    if draw(st.integers(0, 9)) == 0:
        words.append(other + "q" + other)
    return {"t": "desc", "text": " ".join(words), "quote": quote, "c": draw(st.integers(0, 4)) == 0,
            "neg": draw(st.integers(0, 3)) == 0, "reserved": reserved}


_GLOB_IDS = st.sampled_from(["a", "ab", "a_b", "axb", "notes", "p1", "proj", "sub", "x", "o", "2024", "foo", "b"])


@st.composite
def file_atom(draw):
    dirs = draw(st.lists(_GLOB_IDS, max_size=2))
    return {"t": "file", "dirs": dirs, "lead": draw(st.sampled_from(["", "", "*", "*_"])),
            "id": draw(_GLOB_IDS), "trail": draw(st.booleans()), "neg": draw(st.integers(0, 3)) == 0}


def glob_text(a) -> str:
    return "".join(d + "/" for d in a["dirs"]) + a["lead"] + a["id"] + ("*" if a["trail"] else "")


@st.composite
def link_atom(draw):
    dirs = draw(st.lists(_GLOB_IDS, max_size=1))
    return {"t": "link", "page": "/".join(dirs + [draw(_GLOB_IDS)]), "neg": draw(st.integers(0, 3)) == 0}


@st.composite
def kinds_atom(draw):
    allow_ox_adjacent = "kind-word-ox-adjacent" not in OPEN
    n = draw(st.integers(1, 6))
    chars = draw(st.lists(st.sampled_from(KIND_CHARS), min_size=n, max_size=n))
    # split into words
    words, cur = [], ""
    for ch in chars:
        if cur and draw(st.integers(0, 2)) == 0:
            words.append(cur)
            cur = ""
        cur += ch
    words.append(cur)
    if not allow_ox_adjacent:
        # 'ox', 'xo', 'oo', 'xx' lex as one ID: split such words (finding: kind words with adjacent letters)
        fixed = []
        for w in words:
            cur = ""
            for ch in w:
                if cur and cur[-1] in "ox" and ch in "ox":
                    fixed.append(cur)
                    cur = ""
                cur += ch
            fixed.append(cur)
        words = fixed
    return {"t": "kinds", "words": words}


@st.composite
def prio_atom(draw):
    n = draw(st.integers(0, 9))
    m = draw(st.one_of(st.none(), st.integers(max(n, 1), 9)))
    return {"t": "prio", "n": n, "m": m}


@st.composite
def prop_atom(draw):
    key = draw(_PROP_KEYS)
    op = draw(st.sampled_from(["exists", "eq", "eq", "lt", "le", "gt", "ge"]))
    neg = draw(st.integers(0, 3)) == 0
    if op == "exists":
        return {"t": "prop", "key": key, "op": op, "value": "", "neg": neg}
    kind = draw(st.sampled_from(["int", "int1", "long", "str", "str", "odd", "short", "rel"]))
    if kind in ("short", "rel") and op == "eq" and "colon-date-lexing" in OPEN:
        kind = "long"  # `k:240620` / `k:0d` lex as ID DATE_RANGE_TAIL
    if kind == "int":
        value = draw(st.sampled_from(["12", "100", "007", "42", "10", "0"]))
    elif kind == "int1":
        value = draw(st.sampled_from(list("123456789")))
    elif kind == "long":
        value = draw(st.sampled_from(["2024-01-02", "2023-12-31", "2024-02-29", "2000-01-03"]))
    elif kind == "short":
        value = draw(st.sampled_from(_VALID_DAYS))
    elif kind == "rel":
        value = date_text(draw(date_spec().filter(lambda d: d["k"] == "rel")))
    elif kind == "str":
        value = draw(st.sampled_from(SAFE_IDS))
    else:
        value = draw(st.sampled_from(["o", "x", "P5", "file", "none", "1230", "240101#ab", "12ab", "alpha"]))
        if op == "eq" and colon_trap(value) and "colon-date-lexing" in OPEN:
            value = "12ab"
    return {"t": "prop", "key": key, "op": op, "value": value, "neg": neg, "vkind": kind}


@st.composite
def tag_atom(draw):
    return {"t": "tag", "kind": draw(st.sampled_from("#@%+")), "name": draw(ids()),
            "neg": draw(st.integers(0, 3)) == 0}


@st.composite
def range_atom(draw):
    return {"t": draw(st.sampled_from(["create", "modify"])), "start": draw(date_spec()),
            "end": draw(st.one_of(st.none(), date_spec()))}


def atom(depth: int, max_depth: int):
    base = st.one_of(kinds_atom(), prio_atom(), tag_atom(), tag_atom(), range_atom(), prop_atom(), prop_atom(),
                     desc_atom(), file_atom(), link_atom())
    if depth >= max_depth:
        return base
    return st.one_of(base, base, base, or_filter(depth + 1, max_depth).map(lambda o: {"t": "sub", "or": o}))


@st.composite
def and_filter(draw, depth, max_depth):
    n = draw(st.integers(1, 6 if depth == 0 else 3))
    return {"atoms": [draw(atom(depth, max_depth)) for _ in range(n)]}


@st.composite
def or_filter(draw, depth=0, max_depth=3):
    n = draw(st.sampled_from([1, 1, 2, 2, 3]))
    return {"ands": [draw(and_filter(depth, max_depth)) for _ in range(n)]}


@st.composite
def select(draw):
    k = draw(st.sampled_from(SELECT_FIELDS))
    s = {"k": k, "count": draw(st.integers(0, 3)) == 0}
    if k == "propval":
        s["key"] = draw(_PROP_KEYS)
        if colon_trap(s["key"]) and "colon-date-lexing" in OPEN:
            s["key"] = "key2"
    return s


@st.composite
def query(draw, max_depth=3):
    sel = draw(st.one_of(st.none(), select()))
    where = draw(or_filter(0, max_depth)) if (sel is None or draw(st.integers(0, 3)) > 0) else None
    order = draw(st.one_of(st.none(), st.lists(st.sampled_from(ORDER_KEYS), min_size=1, max_size=6)))
    group = draw(st.one_of(st.none(), st.lists(st.sampled_from(GROUP_DIMS), min_size=1, max_size=4)))
    return {"select": sel, "where": where, "order": order, "group": group, "go": draw(st.booleans())}


# ------------------------------------------------------------------ render (AST -> text)

def render_atom(a) -> str:
    t = a["t"]
    if t == "kinds":
        return " ".join(a["words"])
    if t == "prio":
        return f"P{a['n']}" + (f"-{a['m']}" if a["m"] is not None else "")
    if t == "tag":
        return ("!" if a["neg"] else "") + a["kind"] + a["name"]
    if t in ("create", "modify"):
        s = ("^" if t == "create" else "$") + date_text(a["start"])
        if a["end"] is not None:
            s += ":" + date_text(a["end"])
        return s
    if t == "prop":
        op = {"exists": "*", "eq": "", "lt": "<", "le": "<=", "gt": ">", "ge": ">="}[a["op"]]
        return ("!" if a["neg"] else "") + a["key"] + ":" + op + a["value"]
    if t == "desc":
        return ("!" if a["neg"] else "") + ("c" if a["c"] else "") + a["quote"] + a["text"] + a["quote"]
    if t == "file":
        return ("!" if a["neg"] else "") + "f=" + glob_text(a)
    if t == "link":
        return ("!" if a["neg"] else "") + "[[" + a["page"] + "]]"
    if t == "sub":
        return "(" + render_or(a["or"]) + ")"
    raise ValueError(t)


def render_or(o) -> str:
    return " | ".join(" ".join(render_atom(a) for a in af["atoms"]) for af in o["ands"])


def render_select(s) -> str:
    f = s["k"] if s["k"] != "propval" else "prop:" + s["key"]
    return "S " + (f"count({f})" if s["count"] else f)


def render(q) -> str:
    parts = []
    if q["select"] is not None:
        parts.append(render_select(q["select"]))
    if q["where"] is not None:
        parts.append("W " + render_or(q["where"]))
    o = ("O " + " ".join(q["order"])) if q["order"] else None
    g = ("G " + " ".join(q["group"])) if q["group"] else None
    tail = [g, o] if q["go"] else [o, g]
    parts.extend(x for x in tail if x)
    return " ".join(parts)


def has_tolerated_syntax(o) -> set:
    """Classes the ANTLR parser flags although the project itself uses them."""
    out = set()
    if o is None:
        return out
    for af in o["ands"]:
        for a in af["atoms"]:
            if a["t"] == "prop" and a.get("vkind") == "int1":
                out.add("single-digit-value")
            if a["t"] == "prop" and a.get("vkind") in ("short", "rel"):
                out.add("date-after-operator")
            if a["t"] == "desc" and a.get("reserved"):
                out.add("quoted-reserved-token")
            if a["t"] == "sub":
                out |= has_tolerated_syntax(a["or"])
    return out


def walk_atoms(o):
    if o is None:
        return
    for af in o["ands"]:
        for a in af["atoms"]:
            yield a
            if a["t"] == "sub":
                yield from walk_atoms(a["or"])


def depth_of(o) -> int:
    if o is None:
        return 0
    d = 1
    for af in o["ands"]:
        for a in af["atoms"]:
            if a["t"] == "sub":
                d = max(d, 1 + depth_of(a["or"]))
    return d


# ------------------------------------------------------------------ denotation (AST -> expected structure dump)

def value_type(v: str) -> str:
    if _SHORT_RE.match(v) or (len(v) == 6 and v.isdigit()) or _LONG_RE.match(v) or re.match(r"^-?\d+[dmyDMY]$", v):
        return "DATE"
    if v != "" and all(ch.isdigit() for ch in v):
        return "INTEGER"
    return "STRING"


_KIND_NAME = {"-": "BASIC", "o": "OPEN_TODO", "x": "CLOSED_TODO", "~": "CANCELED_TODO", "<": "BLOCKED_TODO",
              ">": "PARENT_TODO"}
_OP_NAME = {"exists": "EXISTS", "eq": "EQ", "lt": "LT", "le": "LE", "gt": "GT", "ge": "GE"}
_ORDER_NAME = {"alpha": "ALPHA", "create": "CREATE_DATE", "modify": "MODIFY_DATE", "priority": "PRIORITY",
               "type": "NOTE_TYPE", "none": "NONE"}
_GROUP_NAME = {"file": "FILE", "section": "SECTION", "type": "NOTE_TYPE", "priority": "PRIORITY", "@": "CONTEXT",
               "#": "AREA", "%": "PERSON", "+": "PROJECT"}
_SEL_NAME = {"file": "FILE", "note": "NOTE", "prop": "PROPERTY", "links": "LINKS", "@": "CONTEXT", "#": "AREA",
             "+": "PROJECT", "%": "PERSON"}
_TAG_FIELD = {"#": "areas", "@": "contexts", "%": "people", "+": "projects"}


def denote_or(o, today):
    return [denote_and(af, today) for af in o["ands"]]


def denote_and(af, today):
    d = {"kinds": set(), "priorities": set(), "areas": set(), "contexts": set(), "people": set(), "projects": set(),
         "create": set(), "modify": set(), "props": set(), "descs": set(), "files": set(), "links": set(), "subs": []}
    for a in af["atoms"]:
        t = a["t"]
        if t == "kinds":
            for w in a["words"]:
                for ch in w:
                    d["kinds"].add(_KIND_NAME[ch])
        elif t == "prio":
            hi = a["m"] if a["m"] is not None else a["n"]
            for p in range(a["n"], hi + 1):
                d["priorities"].add(f"P{p}")
        elif t == "tag":
            d[_TAG_FIELD[a["kind"]]].add(("-" if a["neg"] else "") + a["name"])
        elif t in ("create", "modify"):
            s = iso(resolve_date(a["start"], today))
            e = iso(resolve_date(a["end"], today)) if a["end"] is not None else None
            d[t].add((s, e))
        elif t == "prop":
            vt = value_type(a["value"]) if a["op"] != "exists" else "*"
            d["props"].add((a["key"], a["value"], _OP_NAME[a["op"]], vt, a["neg"]))
        elif t == "desc":
            d["descs"].add((a["text"], True if a["c"] else None, "NOT_CONTAINS" if a["neg"] else "CONTAINS"))
        elif t == "file":
            g = glob_text(a)
            d["files"].add((g if g.endswith("*") else g + ".zo", a["neg"]))
        elif t == "link":
            d["links"].add((a["page"], a["neg"]))
        elif t == "sub":
            d["subs"].append(denote_or(a["or"], today))
    return _freeze_and(d)


def _freeze_and(d):
    return {k: (sorted(v, key=repr) if isinstance(v, set) else v) for k, v in d.items()}


DEFAULT_ORDER = ["NOTE_TYPE", "PRIORITY", "MODIFY_DATE", "CREATE_DATE"]


def denote(q, today):
    sel = q["select"]
    if sel is None:
        s = "NOTE"
    else:
        s = ("propval:" + sel["key"]) if sel["k"] == "propval" else _SEL_NAME[sel["k"]]
        if sel["count"]:
            s = f"count({s})"
    return {
        "select": s,
        "where": denote_or(q["where"], today) if q["where"] is not None else None,
        "order": [_ORDER_NAME[k] for k in q["order"]] if q["order"] else list(DEFAULT_ORDER),
        "group": [_GROUP_NAME[g] for g in q["group"] if g != "none"] if q["group"] else [],
    }


# ------------------------------------------------------------------ dump of a compiled zorg Query

def dump_select(s) -> str:
    from zorg.domain.types import SelectAggregation, SelectPropertyValues

    if isinstance(s, SelectAggregation):
        return f"{s.func_name}({dump_select(s.select_type)})"
    if isinstance(s, SelectPropertyValues):
        return "propval:" + s.key
    return s.name


def dump_or(w):
    return [dump_and(af) for af in w.and_filters]


def dump_and(af):
    d = {
        "kinds": {t.name for t in af.allowed_note_types},
        "priorities": set(af.priorities),
        "areas": set(af.areas), "contexts": set(af.contexts), "people": set(af.people), "projects": set(af.projects),
        "create": {(r.start.isoformat(), r.end.isoformat() if r.end else None) for r in af.create_date_ranges},
        "modify": {(r.start.isoformat(), r.end.isoformat() if r.end else None) for r in af.modify_date_ranges},
        "props": {(p.key, p.value, p.op.name, p.value_type.name if p.op.name != "EXISTS" else "*", p.negated)
                  for p in af.property_filters},
        "descs": {(f.value, f.case_sensitive, f.op.name) for f in af.desc_filters},
        "files": {(f.path_glob, f.negated) for f in af.file_filters},
        "links": {(f.link, f.negated) for f in af.link_filters},
        "subs": [dump_or(o) for o in af.or_filters],
    }
    return _freeze_and(d)


def dump_query(q):
    return {
        "select": dump_select(q.select),
        "where": dump_or(q.where) if q.where is not None else None,
        "order": [o.name for o in q.order_by],
        "group": [g.name for g in q.group_by],
    }


# ------------------------------------------------------------------ structure-driven renderer (round-trip law)

_KIND_CHAR = {v: k for k, v in _KIND_NAME.items()}
_ORDER_KEY = {v: k for k, v in _ORDER_NAME.items()}
_GROUP_KEY = {v: k for k, v in _GROUP_NAME.items()}
_SEL_KEY = {v: k for k, v in _SEL_NAME.items()}


class Unrenderable(Exception):
    pass


def _short(iso_date: str) -> str:
    y, m, d = iso_date.split("-")
    if not (2000 <= int(y) <= 2099):
        raise Unrenderable(f"year {y} has no YYMMDD spelling")
    return y[2:] + m + d


def render_struct_and(d) -> str:
    words = []
    ks = [_KIND_CHAR[k] for k in d["kinds"]]
    # letters must not be adjacent in one word ('ox' is an ID): interleave with symbols / split
    words.extend(ks)
    words.extend(d["priorities"])
    for fld, sym in (("areas", "#"), ("contexts", "@"), ("people", "%"), ("projects", "+")):
        for v in d[fld]:
            words.append(("!" + sym + v[1:]) if v.startswith("-") else sym + v)
    for fld, sym in (("create", "^"), ("modify", "$")):
        for s, e in d[fld]:
            words.append(sym + _short(s) + ((":" + _short(e)) if e else ""))
    for key, value, op, vt, neg in d["props"]:
        o = {"EXISTS": "*", "EQ": "", "LT": "<", "LE": "<=", "GT": ">", "GE": ">="}[op]
        words.append(("!" if neg else "") + key + ":" + o + value)
    for text, cs, op in d["descs"]:
        qt = '"' if "'" in text else "'"
        if qt in text:
            raise Unrenderable("both quote characters in text")
        words.append(("!" if op == "NOT_CONTAINS" else "") + ("c" if cs else "") + qt + text + qt)
    for g, neg in d["files"]:
        words.append(("!" if neg else "") + "f=" + (g if g.endswith("*") else g[:-3]))
    for l, neg in d["links"]:
        words.append(("!" if neg else "") + "[[" + l + "]]")
    for sub in d["subs"]:
        words.append("(" + render_struct_or(sub) + ")")
    if not words:
        raise Unrenderable("empty conjunction")
    return " ".join(words)


def render_struct_or(o) -> str:
    return " | ".join(render_struct_and(d) for d in o)


def render_struct(dq) -> str:
    parts = []
    s = dq["select"]
    cnt = s.startswith("count(")
    if cnt:
        s = s[6:-1]
    f = ("prop:" + s[8:]) if s.startswith("propval:") else _SEL_KEY[s]
    parts.append("S " + (f"count({f})" if cnt else f))
    if dq["where"] is not None:
        parts.append("W " + render_struct_or(dq["where"]))
    parts.append("O " + " ".join(_ORDER_KEY[o] for o in dq["order"]))
    if dq["group"]:
        parts.append("G " + " ".join(_GROUP_KEY[g] for g in dq["group"]))
    return " ".join(parts)


# ------------------------------------------------------------------ validity gate

def syntax_errors(text: str) -> list:
    """Parse with the generated query parser and OUR error listeners."""
    import antlr4
    from antlr4.error.ErrorListener import ErrorListener
    from zorg.grammar.zorg_query.ZorgQueryLexer import ZorgQueryLexer
    from zorg.grammar.zorg_query.ZorgQueryParser import ZorgQueryParser

    errs = []

    class L(ErrorListener):
        def syntaxError(self, recognizer, offendingSymbol, line, column, msg, e):
            errs.append(f"{line}:{column} {msg}")

    lexer = ZorgQueryLexer(antlr4.InputStream(text))
    lexer.removeErrorListeners()
    lexer.addErrorListener(L())
    parser = ZorgQueryParser(antlr4.CommonTokenStream(lexer))
    parser.removeErrorListeners()
    parser.addErrorListener(L())
    parser.prog()
    return errs
