"""Line-level edits of .zo files for history-based checks (C06, C11, C13).

A history step is a plain dict with integer selectors that are interpreted modulo the current
state, so any list of steps is executable and shrinks well.
"""

from __future__ import annotations

import os
from pathlib import Path

from hypothesis import strategies as st

from . import page as P

ITEM_START = ("- ", "o ", "x ", "~ ", "< ", "> ")
# {today...} placeholders are filled in when the step is applied (words that contain today's date)
WORDS = ["see [{today_short}#zz] there", "[[log/{today_long}]]", "on {today_short}", "edited", "more", "text", "again", "#newtag", "@ctx9", "+prj9", "k9::v9", "[[linked]]", "2024-01-01", "P5", "x",
         "[k8:: two words]", "(done)"]


def items_of(lines: list) -> list:
    """-> [(start, end)] line index ranges of items (first line + indented continuation lines)."""
    out = []
    i = 0
    while i < len(lines):
        if lines[i].startswith(ITEM_START):
            j = i + 1
            while j < len(lines) and lines[j].startswith("  ") and lines[j].strip():
                j += 1
            out.append((i, j))
            i = j
        else:
            i += 1
    return out


def header_lines(lines: list) -> list:
    out = [0] if lines and lines[0].startswith("# ") else []
    for i, ln in enumerate(lines):
        if ln.startswith(tuple(P.MARK[k] + " " for k in (1, 2, 3, 4))):
            out.append(i)
    return out


def first_line_parts(line: str):
    """'o P1 240101 240101#ab rest' -> (kind, prio or None, [field words], rest words)"""
    ws = line.split(" ")
    kind = ws[0]
    ws = ws[1:]
    prio = None
    if kind != "-" and ws and len(ws[0]) == 2 and ws[0][0] == "P" and ws[0][1].isdigit():
        prio = ws.pop(0)
    return kind, prio, ws


def join_first_line(kind, prio, ws) -> str:
    return " ".join([kind] + ([prio] if prio else []) + ws)


@st.composite
def step(draw, allow_page_ops=True, allow_paths=True, allow_break=True):
    k = draw(st.integers(0, 42 if allow_break else 39))
    if allow_page_ops and draw(st.integers(0, 14)) == 0:
        return {"op": "restore_page", "n": draw(st.integers(0, 50))}
    sel = {"p": draw(st.integers(0, 50)), "n": draw(st.integers(0, 50))}
    if draw(st.integers(0, 19)) == 0:
        # the page stays, all of its notes go (deleted, or moved to another page)
        return {"op": "strip_page", **sel, "to": draw(st.one_of(st.none(), st.integers(0, 50)))}
    if k == 40 or k == 41:
        return {"op": "break_page", **sel}
    if k == 42:
        return {"op": "fix_pages"}
    if k < 4:
        return {"op": "append_word", **sel, "w": draw(st.sampled_from(WORDS))}
    if k < 6:
        return {"op": "add_bullet", **sel, "w": draw(st.sampled_from(WORDS))}
    if k < 8:
        return {"op": "kind", **sel, "kind": draw(st.sampled_from(P.KINDS))}
    if k < 10:
        return {"op": "prio", **sel, "prio": draw(st.one_of(st.none(), st.integers(0, 9)))}
    if k < 13:
        return {"op": "add_note", **sel, "zid": draw(st.booleans()), "kind": draw(st.sampled_from(P.KINDS)),
                "w": draw(st.sampled_from(WORDS))}
    if k < 15:
        return {"op": "del_note", **sel}
    if k < 18:
        return {"op": "move_note", **sel, "to": draw(st.integers(0, 50))}
    if k < 20:
        return {"op": "header_tag", **sel, "w": draw(st.sampled_from(["#htag", "@hctx", "hk::hv", "+hprj", "2024-02-02"]))}
    if k == 20:
        return {"op": "add_section", **sel, "level": draw(st.sampled_from([1, 1, 2]))}
    if k == 21:
        return {"op": "touch", **sel}
    if allow_page_ops and k < 24:
        return {"op": "add_page", "sub": draw(st.booleans())}
    if allow_page_ops and k < 26:
        return {"op": "del_page", **sel}
    if allow_page_ops and k < 28:
        return {"op": "rename_page", **sel, "sub": draw(st.booleans())}
    if k < 32:
        return {"op": "advance_day", "days": draw(st.sampled_from([1, 1, 2, 7, 40]))}
    if allow_paths and k < 35:
        return {"op": "reindex_paths", "sel": draw(st.lists(st.integers(0, 50), min_size=1, max_size=3))}
    return {"op": "reindex"}


class Workdir:
    """The notes directory under edit + counters for fresh names."""

    def __init__(self, zdir: Path):
        self.zdir = zdir
        self.fresh = 0
        self.skipped = 0
        self.graveyard = {}  # relative path -> bytes of pages that were deleted / renamed away

    def pages(self) -> list:
        return sorted(str(p.relative_to(self.zdir)) for p in self.zdir.rglob("*.zo")
                      if ".zorg" not in p.parts)

    def read(self, rel) -> list:
        return (self.zdir / rel).read_text().split("\n")

    def write(self, rel, lines) -> bool:
        """Write only if the page stays syntactically valid; returns success."""
        text = "\n".join(lines)
        if not text.endswith("\n"):
            text += "\n"
        lex, par, _ = P.independent_parse(text)
        if lex or par:
            self.skipped += 1
            return False
        (self.zdir / rel).write_text(text)
        return True

    def new_zid(self, day: str) -> str:
        self.fresh += 1
        return day[2:4] + day[5:7] + day[8:10] + "#" + "y" + P._SUFFIX_ALPHABET[self.fresh % 51] + P._SUFFIX_ALPHABET[(self.fresh // 51) % 51]

    BROKEN_LINE = "- [[unclosed link of a page being edited"

    def broken_pages(self) -> list:
        return [p for p in self.pages() if self.BROKEN_LINE in self.read(p)]

    def fix_pages(self) -> list:
        fixed = []
        for p in self.broken_pages():
            lines = [ln for ln in self.read(p) if ln != self.BROKEN_LINE]
            (self.zdir / p).write_text("\n".join(lines))
            fixed.append(p)
        return fixed

    def apply(self, st_: dict, day: str):
        """Apply a file-system step.  Returns a short description or None if not applicable."""
        op = st_["op"]
        pages = self.pages()
        if op == "fix_pages":
            f = self.fix_pages()
            return f"fix_pages {f}" if f else None
        if op == "restore_page":
            # a page that was deleted / renamed away comes back, byte-identical, under its old name
            cands = sorted(r for r in self.graveyard if not (self.zdir / r).exists())
            if not cands:
                return None
            rel = cands[st_["n"] % len(cands)]
            (self.zdir / rel).parent.mkdir(parents=True, exist_ok=True)
            data, renamed_to = self.graveyard.pop(rel)
            if renamed_to is not None:
                # undo a rename: the page must not exist twice (its ZIDs would be duplicated)
                if not (self.zdir / renamed_to).exists():
                    return None
                unchanged = (self.zdir / renamed_to).read_bytes() == data
                os.rename(self.zdir / renamed_to, self.zdir / rel)
                return f"restore_page {rel} (rename undone{', byte-identical' if unchanged else ''})"
            (self.zdir / rel).write_bytes(data)
            return f"restore_page {rel} (deleted page restored)"
        if op == "break_page":
            if not pages:
                return None
            rel = pages[st_["p"] % len(pages)]
            if rel in self.broken_pages():
                return None
            lines = self.read(rel)
            while lines and lines[-1] == "":
                lines.pop()
            last = lines[-1] if lines else ""
            if last.startswith("# ") or last == "#":
                lines.append("")
            lines += [self.BROKEN_LINE, ""]
            (self.zdir / rel).write_text("\n".join(lines))
            return f"break_page {rel}"
        # edits of a page that is currently broken are applied to its valid part only if the
        # result (without the broken line) stays valid: keep it simple and leave such pages alone
        pages = [p for p in pages if p not in self.broken_pages()] or pages
        if op == "add_page":
            self.fresh += 1
            rel = ("sub/" if st_.get("sub") else "") + f"new{self.fresh}.zo"
            (self.zdir / rel).parent.mkdir(parents=True, exist_ok=True)
            (self.zdir / rel).write_text(f"# New page {self.fresh} #npt\n\n- fresh note {self.fresh}\no P2 fresh todo\n")
            return f"add_page {rel}"
        if not pages:
            return None
        rel = pages[st_.get("p", 0) % len(pages)]
        if op == "del_page":
            if len(pages) <= 1:
                return None
            self.graveyard[rel] = ((self.zdir / rel).read_bytes(), None)
            (self.zdir / rel).unlink()
            return f"del_page {rel}"
        if op == "rename_page":
            self.fresh += 1
            new = ("sub/" if st_.get("sub") else "") + f"ren{self.fresh}.zo"
            (self.zdir / new).parent.mkdir(parents=True, exist_ok=True)
            self.graveyard[rel] = ((self.zdir / rel).read_bytes(), new)
            os.rename(self.zdir / rel, self.zdir / new)
            return f"rename_page {rel} -> {new}"
        lines = self.read(rel)
        if op == "touch":
            return f"touch {rel}" if self.write(rel, lines + [""]) else None
        if op == "header_tag":
            hs = header_lines(lines)
            if not hs:
                return None
            i = hs[st_["n"] % len(hs)]
            lines[i] = lines[i] + " " + st_["w"]
            return f"header_tag {rel}:{i + 1}" if self.write(rel, lines) else None
        if op == "add_section":
            while lines and lines[-1] == "":
                lines.pop()
            self.fresh += 1
            lines += ["", P.MARK[st_["level"]] + f" Added{self.fresh} #sect{self.fresh}", f"- note in added section {self.fresh}", ""]
            return f"add_section {rel}" if self.write(rel, lines) else None
        its = items_of(lines)
        if op == "add_note":
            self.fresh += 1
            z = (self.new_zid(day) + " ") if st_["zid"] else ""
            new = f"{st_['kind']} {z}added{self.fresh} {st_['w']}"
            if its:
                s, e = its[st_["n"] % len(its)]
                lines[e:e] = [new]
            else:
                while lines and lines[-1] == "":
                    lines.pop()
                lines += ["", new, ""]
            return f"add_note {rel}: {new}" if self.write(rel, lines) else None
        if not its:
            return None
        if op == "strip_page":
            moved = []
            for s, e in reversed(its):
                moved[0:0] = lines[s:e]
                del lines[s:e]
            others = [p for p in pages if p != rel]
            if st_.get("to") is None or not others:
                return f"strip_page {rel} (all {len(its)} notes deleted)" if self.write(rel, lines) else None
            dest = others[st_["to"] % len(others)]
            dl = self.read(dest)
            while dl and dl[-1] == "":
                dl.pop()
            dl += [""] + moved + [""]
            lex, par, _ = P.independent_parse("\n".join(dl))
            if lex or par:
                self.skipped += 1
                return None
            if not self.write(rel, lines):
                return None
            self.write(dest, dl)
            return f"strip_page {rel} (all {len(its)} notes moved to {dest})"
        s, e = its[st_["n"] % len(its)]
        if op == "append_word":
            w = st_["w"].replace("{today_short}", day[2:4] + day[5:7] + day[8:10]).replace("{today_long}", day.replace("-", ""))
            lines[s] = lines[s] + " " + w
            return f"append_word {rel}:{s + 1}" if self.write(rel, lines) else None
        if op == "add_bullet":
            lines[e:e] = ["  * " + st_["w"] + " bullet"]
            return f"add_bullet {rel}:{s + 1}" if self.write(rel, lines) else None
        if op == "kind":
            kind, prio, ws = first_line_parts(lines[s])
            if st_["kind"] == kind:
                return None
            if st_["kind"] == "-":
                prio = None
            lines[s] = join_first_line(st_["kind"], prio, ws)
            return f"kind {rel}:{s + 1} -> {st_['kind']}" if self.write(rel, lines) else None
        if op == "prio":
            kind, prio, ws = first_line_parts(lines[s])
            if kind == "-":
                return None
            new = None if st_["prio"] is None else f"P{st_['prio']}"
            # switching between an omitted priority and an explicit P3 is not an edit of the todo state
            if (prio or "P3") == (new or "P3"):
                return None
            if new is None and ws and len(ws[0]) == 2 and ws[0][0] == "P" and ws[0][1].isdigit():
                return None
            lines[s] = join_first_line(kind, new, ws)
            return f"prio {rel}:{s + 1} -> {new}" if self.write(rel, lines) else None
        if op == "del_note":
            del lines[s:e]
            return f"del_note {rel}:{s + 1}" if self.write(rel, lines) else None
        if op == "move_note":
            others = [p for p in pages if p != rel]
            if not others:
                return None
            dest = others[st_["to"] % len(others)]
            moved = lines[s:e]
            dl = self.read(dest)
            while dl and dl[-1] == "":
                dl.pop()
            last = dl[-1] if dl else ""
            if last.startswith("# ") or last == "#":
                dl.append("")  # blank line between a header block / comment and the item
            dl += moved + [""]
            src_lines = lines[:s] + lines[e:]
            lex, par, _ = P.independent_parse("\n".join(dl) + ("\n" if dl[-1] != "" else ""))
            if lex or par:
                self.skipped += 1
                return None
            if not self.write(rel, src_lines):
                return None
            self.write(dest, dl)
            return f"move_note {rel}:{s + 1} -> {dest}"
        return None
