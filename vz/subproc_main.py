"""Real-process runner used by the subprocess tier:

    python -m vz.subproc_main <repo-src> <YYYY-MM-DD> [--crash-at N [--torn]] -- <zorg argv...>

Freezes the clock like the in-process checks do, runs zorg's real ``main`` in this fresh
interpreter and exits with its code.  With --crash-at the effect interposer is installed and the
process is killed with os._exit(137) right before effect N (no cleanup, no rollback code runs).
"""

import os
import sys


def main() -> None:
    argv = sys.argv[1:]
    src, day = argv[0], argv[1]
    rest = argv[2:]
    crash_at, torn = None, False
    while rest and rest[0] != "--":
        if rest[0] == "--crash-at":
            crash_at = int(rest[1])
            rest = rest[2:]
        elif rest[0] == "--torn":
            torn = True
            rest = rest[1:]
        else:
            raise SystemExit(2)
    zargv = rest[1:]
    sys.path.insert(0, src)
    devnull = os.open(os.devnull, os.O_WRONLY)
    os.dup2(devnull, 2)
    from freezegun import freeze_time
    from zorg.app.__main__ import main as zmain

    with freeze_time(f"{day}T12:00:00"):
        if crash_at is None:
            code = zmain(["zorg"] + zargv)
            sys.stdout.flush()
            os._exit(code if isinstance(code, int) else 1)
        from vz.model.effects import Crash, Interposer

        zdir = [a for a in zargv if a.startswith("--dir=")][0][6:]
        ip = Interposer(zdir, crash_at=crash_at, torn=torn)
        with ip.active():
            try:
                code = zmain(["zorg"] + zargv)
            except Crash:
                os._exit(137)
        os._exit(code if isinstance(code, int) else 1)


if __name__ == "__main__":
    main()
