"""CLI of the checks:  python -m vz.run <ID> [--tier quick|thorough] [--replay FILE]."""

from __future__ import annotations

import argparse
import importlib
import json
import os
import sys
import time
import traceback
from pathlib import Path

VERIF = Path(__file__).resolve().parent.parent
REPO = Path(os.environ.get("VERIF_REPO", "/repo")).resolve()


def _bootstrap_repo() -> None:
    src = str(REPO / "src")
    if src in sys.path:
        sys.path.remove(src)
    sys.path.insert(0, src)
    import zorg  # noqa: F401

    zf = Path(zorg.__file__).resolve()
    if not str(zf).startswith(src):
        print(f"HARNESS-ERROR: zorg imported from {zf}, expected under {src}")
        sys.exit(2)


def main(argv=None) -> int:
    ap = argparse.ArgumentParser()
    ap.add_argument("prop")
    ap.add_argument("--tier", default=os.environ.get("VERIF_TIER", "quick"),
                    choices=["quick", "thorough"])
    ap.add_argument("--replay")
    ap.add_argument("--part", help="run only this part (debugging)")
    a = ap.parse_args(argv)
    seed = int(os.environ.get("VERIF_SEED", "1") or "1")
    pid = a.prop.upper()
    t0 = time.time()
    try:
        _bootstrap_repo()
        from vz import env

        env.init()
        mod = importlib.import_module(f"vz.props.{pid.lower()}")
        from vz import engine

        if a.replay:
            return engine.replay(mod, a.replay)
        return engine.run_property(mod, a.tier, seed, t0, only_part=a.part)
    except SystemExit:
        raise
    except BaseException:  # noqa: BLE001
        traceback.print_exc()
        print(f"HARNESS-ERROR: property={pid} (see traceback above)")
        return 2


if __name__ == "__main__":
    sys.exit(main())
