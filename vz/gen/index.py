"""Small-pool notes directories and filters that hit them (C03, C09, C15, C17)."""

from __future__ import annotations

from hypothesis import strategies as st

from ..model import page as P
from ..model import query as Q
from ..model.page import W

AREAS = ["a1", "a2", "x"]
CONTEXTS = ["c1", "home"]
PEOPLE = ["bob", "p1"]
PROJECTS = ["j1", "zorg"]
TAGS = {"areas": AREAS, "contexts": CONTEXTS, "people": PEOPLE, "projects": PROJECTS}
PAGES = ["a", "ab", "a_b", "axb", "notes", "sub/a", "sub/b", "todo", "jazz"]  # (stems ending in o / z: suffix vs character-set stripping)
TEXT = ["foo", "Foo", "FOO", "bar", "100%", "a_b", "axb", "back\\slash", "don't", "e", "the", "mIxEd", "50%", "_x_",
        "percent%sign", "under_score", "a%b", "ab"]
PROP_VALUES = {"k": ["5", "12", "abc", "007", "100"], "due": ["2024-01-02", "2024-03-01", "2023-12-31", "240105", "soon"],
               "n": ["7", "42"], "ID": ["gid1", "gid2"], "RID": ["rid1"], "pri": ["10", "9"]}
ZID_DATES = ["240101", "240102", "240105", "231231", "240229"]
TODAYS = ["2024-01-05", "2024-03-01", "2024-02-29"]


@st.composite
def _note(draw, zid: str, all_zids: list, force_id=None):
    kind = draw(st.sampled_from(P.KINDS))
    prio = draw(st.one_of(st.none(), st.integers(0, 9))) if kind != "-" else None
    modify = draw(st.sampled_from(ZID_DATES + ["240301"])) if draw(st.integers(0, 2)) == 0 else None
    ws = [W(draw(st.sampled_from(TEXT))) for _ in range(draw(st.integers(1, 4)))]
    for _ in range(draw(st.integers(0, 4))):
        k = draw(st.integers(0, 9))
        if k < 4:
            fld = draw(st.sampled_from(list(TAGS)))
            name = draw(st.sampled_from(TAGS[fld]))
            ws.append(W(P.TAGSYM[fld] + name, (fld, name)))
        elif k < 6:
            key = draw(st.sampled_from(["k", "due", "n", "pri"]))
            v = draw(st.sampled_from(PROP_VALUES[key]))
            ws.append(W(f"{key}::{v}", ("prop", key, v)))
        elif k < 8:
            t = draw(st.sampled_from(PAGES + ["axb#x", "a#sec", "ab#top", "a_b#1", "zz"]))
            ws.append(W(f"[[{t}]]", ("links", t)))
        elif k == 8:
            g = draw(st.sampled_from(["gid1", "gid2", "rid1", "nope"]))
            if draw(st.booleans()):
                ws.append(W(f"[#{g}]", ("links", "global:" + g)))
            else:
                ws.append(W(f"[@{g}]", ("links", "ref:" + g)))
        else:
            z = draw(st.sampled_from(all_zids))
            if z != zid:
                ws.append(W(f"[{z}]", ("links", "zid:" + z)))
    if force_id:
        ws.append(W(f"{force_id[0]}::{force_id[1]}", ("prop", force_id[0], force_id[1])))
    ws.append(W(draw(st.sampled_from(TEXT))))
    lines = [{"ind": "", "words": ws}]
    if draw(st.integers(0, 4)) == 0:
        lines.append({"ind": "  * ", "words": [W(draw(st.sampled_from(TEXT))), W(draw(st.sampled_from(TEXT)))]})
    if draw(st.integers(0, 5)) == 0:
        # a property drawer; one entry in three was left empty ("- k::" indexes the value '')
        lines.append({"ind": "  * ", "words": [W("PROPERTY:")]})
        for key in draw(st.lists(st.sampled_from(["k", "n", "due", "rating"]), min_size=1, max_size=2, unique=True)):
            vs = [] if draw(st.integers(0, 2)) == 0 else [draw(st.sampled_from(PROP_VALUES.get(key, ["3", "4"])))]
            lines.append({"ind": "    - ", "bprop": [key, vs]})
    return {"kind": kind, "prio": prio, "modify": modify, "zid": zid, "longdate": None, "gap": 1, "lines": lines}


@st.composite
def directory(draw, n_pages=(2, 4), notes_per_page=(2, 6), pad_lines=False, dup_ids=False):
    rels = draw(st.lists(st.sampled_from(PAGES), min_size=n_pages[0], max_size=n_pages[1], unique=True))
    counts = [draw(st.integers(*notes_per_page)) for _ in rels]
    all_zids = []
    n = 0
    per_page = []
    for c in counts:
        zs = []
        for _ in range(c):
            zs.append(draw(st.sampled_from(ZID_DATES)) + "#" + P._suffix(n))
            n += 1
        per_page.append(zs)
        all_zids.extend(zs)
    out = {}
    ids_left = [("ID", "gid1"), ("ID", "gid2"), ("RID", "rid1")]
    if dup_ids:
        # the same ID:: / RID:: on several notes / pages (ambiguous link targets)
        ids_left += [("ID", "gid1"), ("RID", "rid1"), ("ID", "gid2")]
    for rel, zs in zip(rels, per_page):
        notes = []
        for z in zs:
            fid = ids_left.pop(0) if ids_left and draw(st.integers(0, 2)) == 0 else None
            notes.append(draw(_note(z, all_zids, fid)))
        title = [W("Title")]
        if draw(st.integers(0, 3)) == 0:
            fld = draw(st.sampled_from(list(TAGS)))
            name = draw(st.sampled_from(TAGS[fld]))
            title.append(W(P.TAGSYM[fld] + name, (fld, name)))
        split = draw(st.integers(0, len(notes)))
        body_items, sec_items = notes[:split], notes[split:]
        body = []
        if pad_lines and draw(st.booleans()):
            # push later items to line numbers >= 10 (string vs numeric ordering of line numbers)
            body.append({"items": [{"comment": [W("pad")]} for _ in range(draw(st.integers(6, 11)))], "blank": 1})
        if body_items:
            cut = draw(st.integers(1, len(body_items)))
            body.append({"items": body_items[:cut], "blank": 1})
            if body_items[cut:]:
                body.append({"items": body_items[cut:], "blank": 1})
        secs = []
        if sec_items:
            hdr = [W(draw(st.sampled_from(["Alpha", "Beta", "Gamma"])))]
            if draw(st.booleans()):
                fld = draw(st.sampled_from(list(TAGS)))
                name = draw(st.sampled_from(TAGS[fld]))
                hdr.append(W(P.TAGSYM[fld] + name, (fld, name)))
            lv = draw(st.sampled_from([1, 1, 2]))
            cut = draw(st.integers(1, len(sec_items)))
            sec = {"level": lv, "header": hdr, "nl": 0, "blocks": [{"items": sec_items[:cut], "blank": 1}], "children": []}
            rest = sec_items[cut:]
            parent = sec
            while rest and parent["level"] < 4:
                # chain of ever deeper sub-sections (H2 > H3 > H4)
                c2 = draw(st.integers(1, len(rest)))
                sub = {"level": parent["level"] + 1, "header": [W(draw(st.sampled_from(["Sub", "Deep", "Leaf"])))], "nl": 0,
                       "blocks": [{"items": rest[:c2], "blank": 1}], "children": []}
                parent["children"].append(sub)
                parent, rest = sub, rest[c2:]
            if rest:
                parent["blocks"].append({"items": rest, "blank": 1})
            secs.append(sec)
        out[rel + ".zo"] = {"title": title, "head": [], "blank": 1, "body": body, "secs": secs}
    return out


# ------------------------------------------------------------------ filters over the same pools

@st.composite
def hit_date(draw):
    if draw(st.booleans()):
        return {"k": "short", "v": draw(st.sampled_from(ZID_DATES + ["240103", "240301", "231230"]))}
    u = draw(st.sampled_from("dddmy"))
    return {"k": "rel", "n": draw(st.integers(0, {"d": 70, "m": 3, "y": 1}[u])), "u": u, "neg": draw(st.integers(0, 3)) > 0}


@st.composite
def hit_atom(draw, depth, max_depth, k=None):
    if k is None:
        k = draw(st.integers(0, 21))
    neg = draw(st.integers(0, 2)) == 0
    if k < 2:
        return draw(Q.kinds_atom())
    if k < 4:
        return draw(Q.prio_atom())
    if k < 7:
        fld = draw(st.sampled_from(list(TAGS)))
        name = draw(st.sampled_from(TAGS[fld] + ["a", "nope"]))
        return {"t": "tag", "kind": P.TAGSYM[fld], "name": name, "neg": neg}
    if k < 9:
        return {"t": draw(st.sampled_from(["create", "modify"])), "start": draw(hit_date()),
                "end": draw(st.one_of(st.none(), hit_date()))}
    if k < 13:
        key = draw(st.sampled_from(["k", "due", "n", "pri", "ID", "missing", "rating"]))
        op = draw(st.sampled_from(["exists", "eq", "eq", "lt", "le", "gt", "ge"]))
        if op == "exists":
            return {"t": "prop", "key": key, "op": op, "value": "", "neg": neg}
        kind = draw(st.sampled_from(["int", "int1", "long", "str", "short", "rel"]))
        if kind in ("short", "rel") and op == "eq" and "colon-date-lexing" in Q.OPEN:
            kind = "long"
        if kind == "int":
            v = draw(st.sampled_from(["12", "10", "100", "42", "007", "0"]))
        elif kind == "int1":
            v = draw(st.sampled_from(list("5789")))
        elif kind == "long":
            v = draw(st.sampled_from(["2024-01-02", "2024-03-01", "2023-12-31", "2024-02-01"]))
        elif kind == "short":
            v = draw(st.sampled_from(["240102", "240301", "240105"]))
        elif kind == "rel":
            v = Q.date_text(draw(hit_date().filter(lambda d: d["k"] == "rel")))
        else:
            v = draw(st.sampled_from(["abc", "soon", "gid1", "ab", "b"]))
        return {"t": "prop", "key": key, "op": op, "value": v, "neg": neg, "vkind": kind}
    if k < 17:
        w = draw(st.sampled_from(TEXT + ["oo", "%", "_", "\\", "0%", "a_", "_b", "xb", "FOO bar", "foo bar", "Foo 100%",
                                       "b a", "slash", "k\\s", "t%s", "r_s", "A_B", "AXB", "don't"]))
        quote = '"' if "'" in w else draw(st.sampled_from(["'", '"']))
        return {"t": "desc", "text": w, "quote": quote, "c": draw(st.integers(0, 3)) == 0, "neg": neg, "reserved": False}
    if k < 20:
        shape = draw(st.sampled_from(["exact", "prefix", "suffix", "mid", "dir", "under"]))
        page = draw(st.sampled_from(PAGES))
        dirs = page.split("/")[:-1]
        base = page.split("/")[-1]
        a = {"t": "file", "dirs": dirs, "lead": "", "id": base, "trail": False, "neg": neg}
        if shape == "prefix":
            a["id"], a["trail"] = base[:1], True
        elif shape == "suffix":
            a["lead"], a["id"] = "*", base[-1:]
        elif shape == "mid":
            a["lead"], a["id"], a["trail"] = "*", draw(st.sampled_from(["x", "b", "a", "ote"])), True
        elif shape == "dir":
            a["dirs"], a["lead"], a["id"], a["trail"] = ["sub"], "", draw(st.sampled_from(["a", "b"])), draw(st.booleans())
        elif shape == "under":
            a["dirs"], a["lead"], a["id"] = [], draw(st.sampled_from(["", "*_"])), draw(st.sampled_from(["a_b", "b"]))
        return a
    if k < 22 and depth < max_depth:
        return {"t": "sub", "or": draw(hit_or(depth + 1, max_depth))}
    return {"t": "link", "page": draw(st.sampled_from(PAGES + ["zz"])), "neg": neg}


_K_OF_KIND = {"tag": 4, "create": 7, "modify": 7, "prop": 9, "desc": 13, "file": 17}


@st.composite
def link_atom(draw):
    return {"t": "link", "page": draw(st.sampled_from(PAGES + ["zz"])), "neg": draw(st.integers(0, 2)) == 0}


@st.composite
def hit_and(draw, depth, max_depth):
    n = draw(st.sampled_from([1, 1, 1, 2, 2, 3]))
    atoms = [draw(hit_atom(depth, max_depth)) for _ in range(n)]
    if draw(st.integers(0, 5)) == 0:
        atoms.append(draw(link_atom()))
    if draw(st.integers(0, 3)) == 0:
        # a second (third) atom of a kind the group already has: conditions of one kind are combined
        # per kind, so "first one only" / "last one wins" mistakes need two of them
        t = draw(st.sampled_from([a["t"] for a in atoms]))
        for _ in range(draw(st.sampled_from([1, 1, 2]))):
            if t == "link":
                atoms.append(draw(link_atom()))
            elif t in _K_OF_KIND:
                atoms.append(draw(hit_atom(max_depth, max_depth, k=_K_OF_KIND[t])))
    return {"atoms": atoms}


@st.composite
def hit_or(draw, depth=0, max_depth=2):
    n = draw(st.sampled_from([1, 1, 1, 2, 2, 3]))
    return {"ands": [draw(hit_and(depth, max_depth)) for _ in range(n)]}
