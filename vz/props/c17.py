"""C17 -- `action open` offers and opens exactly the link targets on the line."""

from __future__ import annotations

from hypothesis import strategies as st

from .. import env
from ..driver import HypPart, InvalidCase, Rec, Violation
from ..gen import index as G
from ..model import dbdump
from ..model import page as P
from .c03 import build_index

ID = "C17"
LEVEL = "exploration"
RULE = (
    "Hypothesis draws an indexed directory (pages with ID:: / RID:: notes) and 6 lines, each built from a prefix "
    "(-, o, o P1, x ..., with/without YYMMDD modify date, with/without primary ZID, or an indented continuation / "
    "bullet) followed by a known list of 0-6 targets with repetitions allowed -- [[p]], [[d/p]], [[p#a]], [^l], "
    "[#id], [@rid], [!id], non-primary ZIDs bare and as [ZID] -- each optionally wrapped in the punctuation the "
    "runner strips, separated by filler words; the line is written into a .zo or .zoq file and `zorg action open "
    "FILE LINE [IDX]` is run for IDX in {absent, -1, 0, 1..n+1}.  Oracle: every stdout line starts with EDIT / "
    "SEARCH / PROMPT / ECHO; n = 0 => one ECHO; n >= 2 without index => 'PROMPT t1 .. tn' in line order (the list "
    "is known by construction); index k (or -1) => same stdout and exit code as a line holding only the k-th "
    "target, which for n = 1 is also what no index gives (in a .zoq page, which lists notes living elsewhere, the "
    "leading ZID counts as a target too); [[p]] / [[p#a]] resolve to EDIT <notes dir>/p.zo (+ "
    "SEARCH LID::a), ZID / ID / RID targets to EDIT of the page that owns them according to the raw index rows.  "
    "External programs are stubbed and recorded.  Non-trivial = n >= 2 with an index, or a primary-ZID prefix "
    "together with a non-primary ZID target; distinct by SHA-1 of the case."
)
ASSUMPTIONS = [
    "'surrounding punctuation' = the set the runner documents: ( ) , . ? ! ; :",
    "targets come after at least one ordinary word (a ZID directly behind the primary ZID is part of the prefix)",
    "z:: cite keys and binary file extensions (external programs) are not target kinds of the statement",
]

FILLER = ["see", "also", "and", "the", "foo", "x1", "read", "240101", "P1", "o", "-", "note:", "(draft)", "a#b", "k::v"]
PROTO = ("EDIT ", "SEARCH ", "PROMPT ", "ECHO ")


@st.composite
def _target(draw, zids):
    k = draw(st.integers(0, 11))
    if k < 3:
        return "[[" + draw(st.sampled_from(G.PAGES + ["missing_page", "sub/new"])) + "]]"
    if k == 3:
        return "[[" + draw(st.sampled_from(G.PAGES)) + "#" + draw(st.sampled_from(["top", "a1", "sec_2"])) + "]]"
    if k == 4:
        return "[^" + draw(st.sampled_from(["l1", "fn2", "X"])) + "]"
    if k == 5:
        return "[#" + draw(st.sampled_from(["gid1", "gid2", "nope"])) + "]"
    if k == 6:
        return "[@" + draw(st.sampled_from(["rid1", "nope"])) + "]"
    if k == 7:
        return "[!" + draw(st.sampled_from(["gid1", "gid2", "nope", "gid1:arg%x"])) + "]"
    z = draw(st.sampled_from(zids + ["991231#zz"]))
    return z if k < 10 else "[" + z + "]"


@st.composite
def _line(draw, zids):
    kind = draw(st.sampled_from(["item", "item", "item", "cont", "bullet"]))
    has_primary = False
    if kind == "item":
        pre = draw(st.sampled_from(["-", "o", "o P1", "x", "~ P9", "<", ">"]))
        if draw(st.integers(0, 2)) == 0:
            pre += " " + draw(st.sampled_from(["240101", "231231"]))
        if draw(st.booleans()):
            pre += " " + draw(st.sampled_from(zids))
            has_primary = True
    elif kind == "cont":
        pre = "  "
    else:
        pre = draw(st.sampled_from(["  *", "    -"]))
    n = draw(st.sampled_from([0, 1, 1, 2, 2, 3, 3, 4, 6]))
    targets = []
    # on an item line the targets follow at least one ordinary word; an indented continuation / bullet
    # line has no primary ZID, so there a target may come first (even behind '-', a priority or a date)
    if kind == "item" or draw(st.booleans()):
        words = [draw(st.sampled_from(["see", "foo", "read"]))]
    else:
        words = draw(st.sampled_from([[], [], ["P1"], ["240101"], ["-"], ["o", "P2"]]))
    for _ in range(n):
        t = draw(_target(zids))
        if targets and draw(st.integers(0, 3)) == 0:
            t = draw(st.sampled_from(targets))  # the same target twice on one line
        targets.append(t)
        w = t
        if draw(st.integers(0, 2)) == 0:
            w = draw(st.sampled_from(["", "("])) + t + draw(st.sampled_from([")", ",", ".", "?", "!", ";", ":", "),"]))
        words.append(w)
        for _ in range(draw(st.integers(0, 2))):
            words.append(draw(st.sampled_from(FILLER)))
    text = (pre + " " + " ".join(words)) if pre.strip() else (pre + " ".join(words))
    if kind != "item" and words and words[0] in ln_targets_first(targets):
        pass
    return {"text": text, "targets": targets, "has_primary": has_primary, "lead_target": kind != "item",
            "primary": pre.split(" ")[-1] if has_primary else None,
            "idx": draw(st.sampled_from([None, None, -1, 0, 1, 2, 3, n, n + 1]))}


@st.composite
def _case(draw):
    d = draw(G.directory(n_pages=(2, 3), notes_per_page=(2, 4), dup_ids=draw(st.integers(0, 3)) == 0))
    zids = [it["zid"] for pg in d.values() for it in P.iter_items(pg)]
    return {"dir": d, "today": "2024-01-05", "ext": draw(st.sampled_from(["zo", "zo", "zoq"])),
            # the page that holds the line lives at the top of the notes directory or below it
            "where": draw(st.sampled_from(["", "", "sub/", "prj/deep/"])),
            "lines": [draw(_line(zids)) for _ in range(6)]}


def ln_targets_first(targets):
    return set(targets[:1])


class _FakeSp:
    PIPE = -1

    def __init__(self):
        self.calls = []

    def run(self, argv, **kw):
        self.calls.append(list(argv))

        class R:
            returncode = 0
        return R()

    def Popen(self, argv, **kw):  # noqa: N802
        self.calls.append(list(argv))

        class Pp:
            def communicate(self_inner):
                return (b"", b"")
        return Pp()


def _run(zdir, rel, line_no, idx, rec):
    import zorg.app.runners._run_action as ra

    fake = _FakeSp()
    old = ra.sp
    ra.sp = fake
    try:
        args = ["action", "open", rel, str(line_no)] + ([] if idx is None else [str(idx)])
        with rec.sut("action-open"):
            r = env.zorg(zdir, *args)
    finally:
        ra.sp = old
    return r.code, r.out, fake.calls


def _norm(t: str) -> str:
    """What the runner lists for target text t."""
    if t.startswith("[") and not t.startswith(("[[", "[^", "[#", "[@", "[!")):
        return t.strip("[]")
    return t


def check(case, rec: Rec) -> None:
    nontriv = 0
    with env.sandbox("vz-c17-") as box, env.frozen(case["today"]):
        zdir = box / "org"
        zdir.mkdir()
        rows = build_index(case, zdir, rec)
        by_zid = {r["zid"]: r for r in rows}
        by_id, by_rid = {}, {}
        for r in rows:
            if "ID" in r["props"]:
                by_id.setdefault(r["props"]["ID"], []).append(r)
            if "RID" in r["props"]:
                by_rid.setdefault(r["props"]["RID"], []).append(r)
        rel = case.get("where", "") + "lines." + case["ext"]
        (zdir / rel).parent.mkdir(parents=True, exist_ok=True)
        if case.get("where"):
            rec.label("line-on-page-in-subdirectory")
        single = "single." + case["ext"]
        for li, ln in enumerate(case["lines"]):
            one = {"dir": case["dir"], "today": case["today"], "ext": case["ext"], "where": case.get("where", ""),
                   "lines": [ln]}
            (zdir / rel).write_text("# lines\n\n" + ln["text"] + "\n")
            before = env.read_tree(zdir)
            code, out, calls = _run(zdir, rel, 3, ln["idx"], rec)
            outl = [x for x in out.split("\n") if x]
            for x in outl:
                if not x.startswith(PROTO):
                    raise Violation("non-protocol-output", f"line {ln['text']!r} idx={ln['idx']}: stdout line {x!r}", case=one)
            ts = [_norm(t) for t in ln["targets"]]
            if case["ext"] == "zoq" and ln.get("primary"):
                # a .zoq page lists notes that live elsewhere: there every ZID on the line is a target
                ts.insert(0, ln["primary"])
            n = len(ts)
            idx = ln["idx"]

            def single_line(t):
                (zdir / single).write_text("# single\n\n- see " + t + "\n")
                c2, o2, calls2 = _run(zdir, single, 3, None, rec)
                return c2, [x.replace(single, rel) for x in o2.split("\n") if x], calls2

            if n == 0:
                if len(outl) != 1 or not outl[0].startswith("ECHO "):
                    raise Violation("no-target-not-echo", f"{ln['text']!r}: {outl}", case=one)
                rec.label("n=0")
                continue
            if n >= 2 and idx is None:
                want = "PROMPT " + " ".join(ts)
                if outl != [want] or code != 0:
                    raise Violation("prompt-list", f"{ln['text']!r}: got {outl} (exit {code}), expected [{want!r}]", case=one)
                rec.label("prompt")
                continue
            if n == 1 and idx is None:
                k = 1
            elif idx == -1:
                k = n
            elif idx is not None and 1 <= idx <= n:
                k = idx
            elif n == 1:
                k = 1  # a single target is opened whatever index is passed
            else:
                # index outside 1..n: nothing may be opened
                if any(x.startswith(("EDIT ", "SEARCH ")) for x in outl) or calls:
                    raise Violation("bad-index-opens-something", f"{ln['text']!r} idx={idx}: {outl} {calls}", case=one)
                rec.label("bad-index")
                continue
            t = ts[k - 1]
            c2, o2, calls2 = single_line(t)
            if (code, outl, calls) != (c2, o2, calls2):
                raise Violation("option-k-differs-from-single-target",
                                f"line {ln['text']!r} idx={idx} (target #{k} = {t!r}): exit {code} {outl} {calls}\n"
                                f"single-target line '- see {t}': exit {c2} {o2} {calls2}", case=one)
            # resolution against the raw index
            exp_page = None
            if t.startswith("[["):
                base = t[2:-2].split("#")[0]
                exp = [f"EDIT {zdir}/{base}.zo"]
                ok = code == 0 and outl[:1] == exp
                if "#" in t:
                    # (the exact search pattern is a protocol detail; it must search for the anchor)
                    anchor = t[2:-2].split("#")[1]
                    ok = ok and len(outl) == 2 and outl[1].startswith("SEARCH ") and anchor in outl[1]
                    exp.append(f"SEARCH <..{anchor}..>")
                else:
                    ok = ok and len(outl) == 1
                if not ok:
                    raise Violation("page-link-resolution", f"{t}: {outl} exit {code}, expected {exp}", case=one)
            elif t.startswith("[#") or t.startswith("[@"):
                owners = (by_id if t[1] == "#" else by_rid).get(t[2:-1], [])
                pages = {o["page"] for o in owners}
                if len(pages) == 1 and (t[1] == "#" or len(owners) == 1):
                    exp_page = pages.pop()
            elif not t.startswith("["):
                if t in by_zid:
                    exp_page = by_zid[t]["page"]
                elif code == 0:
                    raise Violation("unknown-zid-opened", f"{t}: {outl}", case=one)
            if exp_page is not None:
                if not outl or outl[0] != f"EDIT {zdir}/{exp_page}" or code != 0:
                    raise Violation("owner-page-resolution", f"{t}: {outl} exit {code}, owner page {exp_page}", case=one)
            (zdir / single).unlink(missing_ok=True)
            after = env.read_tree(zdir)
            if after != before:
                raise Violation("files-changed", f"{ln['text']!r}: action open changed {set(after) ^ set(before)}", case=one)
            rec.label("opened:" + ("page" if t.startswith("[[") else t[:2] if t.startswith("[") else "zid"))
            if n >= 2:
                rec.label("n>=2+index")
            zid_target = any(not x.startswith("[") for x in ts)
            if (n >= 2 and idx is not None) or (ln["has_primary"] and zid_target):
                nontriv += 1
            if len(set(ts)) < len(ts):
                rec.label("duplicate-targets")
    rec.nontrivial = nontriv >= 1


REQUIRED_LABELS = {"prompt": 0.3, "n>=2+index": 0.3, "duplicate-targets": 0.1}


def sample_view(case):
    return "\n".join(f"{l['text']!r} idx={l['idx']}" for l in case["lines"])


def parts(tier):
    quick = tier == "quick"
    return [HypPart(name="open", check=check, strategy=_case,
                    examples=30 if quick else 700, seconds=50 if quick else 600)]
