"""C16 -- template initialisation never overwrites existing files."""

from __future__ import annotations

import re
from pathlib import Path

from hypothesis import strategies as st

from .. import env
from ..driver import HypPart, InvalidCase, Rec, Violation

ID = "C16"
LEVEL = "exploration"
RULE = (
    "Hypothesis draws 1-4 templates (header block, blank line, body with '## ' comment lines, "
    "{{ var }} placeholders and {{ date.strftime(..) }} for date-like captures; same base name in "
    "different directories on purpose), an ordered map of 1-4 deliberately overlapping regex patterns "
    "with named groups, 1-3 target paths (existing with arbitrary bytes / missing / in sub-directories / "
    "without extension; matching 0, 1 or several patterns), a user variable map and the force flag, and "
    "one of three routes: init_from_template API (all targets in one process), `zorg template init` "
    "(one process per target), `zorg edit` with the editor stubbed (files inspected at the moment the "
    "editor starts) or `zorg action open` on a line linking to the target.  Oracle: existing and not forced => bytes unchanged; missing and first matching "
    "pattern (own loop) => content equals both ZorgTemplateManager.render of that template with user "
    "vars overridden by captures and an own mini-renderer; no match => nothing written, no directory "
    "created; no other file appears or changes; doing it twice equals once.  Non-trivial = a target "
    "matched by >= 2 patterns, or an existing target, or a date-like capture; distinct by SHA-1."
)
ASSUMPTIONS = [
    "date-like captures are valid calendar dates and groups are mandatory (the statement's phrasing)",
    "an explicit --template is only combined with targets no pattern matches (the statement gives patterns precedence)",
    "each CLI command is a fresh process: ZorgTemplateManager's class-level temp dir is re-created between commands",
]

PATTERNS = [
    r"^(?P<date>\d{8})\.zo$",
    r"^(?P<name>.*)\.zo$",
    r"^\d{4}/(?P<date>[0-9]{8})\.zo$",
    r"^(?P<date>\d{8})_(?P<kind>[a-z]+)\.zo$",
    r"^(?P<dir>[a-z]+)/(?P<name>[a-z_0-9]+)\.zo$",
    r"^proj_(?P<name>\w+)\.zo$",
    r".*",
    r"(?P<y>\d{4})(?P<md>\d{4})",
    r"^(?P<dir>\w+)/",
    r"^(?P<name>[a-z]+)_(?P<date>\d{8})",
    r"^t/(?P<num>[0-9]+)\.zo$",
    r"^t/(?P<num>\d+)",
]
TARGETS = [
    "20240102.zo", "20240102", "2024/20240102.zo", "2023/20231231.zo", "proj_foo.zo", "proj_foo",
    "notes/foo.zo", "notes/deep/foo.zo", "foo", "foo.zo", "20240229_done.zo", "20240229_habit",
    "log_20240301.zo", "misc.txt", "a/b_c.zo", "19991231.zo", "work/20240102.zo",
    # numeric captures that are no dates (ticket numbers), look like dates but are none, or are dates
    "t/123456.zo", "t/2000113.zo", "t/1234567.zo", "t/20241340.zo", "t/20240230.zo", "t/20240229.zo", "t/20230229.zo",
    "t/00000101.zo", "t/240315", "t/20240101", "t/123456789.zo",
]
TEMPLATE_PATHS = ["t1.zot", "t2.zot", "tmpl/day.zot", "work/day.zot", "home/day.zot", "tmpl/t1.zot"]
_VARS = ["name", "kind", "dir", "y", "md", "u1", "u2", "parent", "num", "num"]
_DATE_FMTS = ["%Y-%m-%d", "%Y/%Y%m%d", "%d", "%Y%m%d", "%m.%y"]
_LITERALS = ["o todo item", "- a note #tag", "plain text line", "", "  * bullet", "## ", "x P1 done", "line with # hash"]


@st.composite
def _template(draw, with_date: bool):
    head = ["# " + draw(st.sampled_from(["Template for logs.", "T", "Template [[x]] {{ nope }}"]))]
    for _ in range(draw(st.integers(0, 2))):
        head.append(draw(st.sampled_from(["#", "# ^ = [[template]]", "# more header"])))
    body = []
    for _ in range(draw(st.integers(1, 7))):
        k = draw(st.integers(0, 9))
        if k < 2:
            body.append({"t": "lit", "s": draw(st.sampled_from(_LITERALS))})
        elif k < 4:
            body.append({"t": "cmt", "segs": draw(_segs(with_date))})
        elif k == 4:
            body.append({"t": "bare##"})
        elif k == 5:
            body.append({"t": "lit", "s": ""})
        else:
            body.append({"t": "line", "segs": draw(_segs(with_date))})
    return {"head": head, "body": body, "final_nl": draw(st.integers(0, 2))}


@st.composite
def _segs(draw, with_date: bool):
    out = []
    for _ in range(draw(st.integers(1, 4))):
        k = draw(st.integers(0, 5))
        if k < 2:
            out.append(["lit", draw(st.sampled_from(["Hello ", "log ", " | ", "x", "- ", "[[", "]] ", "= "]))])
        elif k < 5 or not with_date:
            out.append(["var", draw(st.sampled_from(_VARS))])
        else:
            out.append(["date", "date", draw(st.sampled_from(_DATE_FMTS))])
    return out


def template_text(t) -> str:
    lines = list(t["head"]) + [""]
    for b in t["body"]:
        if b["t"] == "lit":
            lines.append(b["s"])
        elif b["t"] == "bare##":
            lines.append("##")
        else:
            s = "".join(_seg_src(x) for x in b["segs"])
            lines.append(("## " + s) if b["t"] == "cmt" else s)
    return "\n".join(lines) + "\n" * t["final_nl"]


def _seg_src(seg):
    if seg[0] == "lit":
        return seg[1]
    if seg[0] == "var":
        return "{{ %s }}" % seg[1]
    return "{{ %s.strftime('%s') }}" % (seg[1], seg[2])


_DATE_RE = re.compile(r"^[0-9]{4}[01][0-9][0-3][0-9]$")


def _is_date_like(v) -> bool:
    """Eight digits that are a calendar date (own calendar; years 0001-9999)."""
    if not isinstance(v, str) or not _DATE_RE.match(v):
        return False
    y, m, d = int(v[:4]), int(v[4:6]), int(v[6:8])
    if y < 1 or not 1 <= m <= 12 or d < 1:
        return False
    leap = y % 4 == 0 and (y % 100 != 0 or y % 400 == 0)
    return d <= [31, 29 if leap else 28, 31, 30, 31, 30, 31, 31, 30, 31, 30, 31][m - 1]


def _fmt_date(v: str, f: str) -> str:
    y, m, d = v[:4], v[4:6], v[6:8]
    return f.replace("%Y", y).replace("%m", m).replace("%d", d).replace("%y", y[2:])


def mini_render(t, var_map: dict) -> str:
    """Own renderer for the restricted template language (independent of jinja/zorg)."""
    out = []
    for b in t["body"]:
        if b["t"] == "lit":
            s = b["s"]
            if s.startswith("## ") or s.strip() == "##":
                s = s[1:]
            out.append(s)
        elif b["t"] == "bare##":
            out.append("#")
        else:
            s = ""
            for seg in b["segs"]:
                if seg[0] == "lit":
                    s += seg[1]
                elif seg[0] == "var":
                    v = var_map.get(seg[1])
                    if v is None:
                        s += ""
                    elif _is_date_like(v):
                        s += f"{v[:4]}-{v[4:6]}-{v[6:8]} 00:00:00"
                    else:
                        s += v
                else:
                    s += _fmt_date(var_map[seg[1]], seg[2])
            out.append(("# " + s) if b["t"] == "cmt" else s)
    # jinja2 (keep_trailing_newline=False) drops a single trailing newline of the *source*
    text = "\n".join(out) + "\n" * t["final_nl"]
    last = t["body"][-1]
    if t["final_nl"] >= 1 or (last["t"] == "lit" and last["s"] == "" and len(t["body"]) > 1):
        text = text[:-1]
    return text


@st.composite
def _case(draw):
    npat = draw(st.integers(0, 4))
    pats = draw(st.lists(st.sampled_from(PATTERNS), min_size=npat, max_size=npat, unique=True))
    tpaths = draw(st.lists(st.sampled_from(TEMPLATE_PATHS), min_size=1, max_size=4, unique=True))
    templates = {}
    for tp in tpaths:
        templates[tp] = None
    pattern_map = []
    date_tpl = set()
    for p in pats:
        tp = draw(st.sampled_from(tpaths))
        pattern_map.append([p, tp])
        if "?P<date>" in p:
            date_tpl.add(tp)
    # a template may use date.strftime only if *every* pattern mapped to it captures `date`
    for p, tp in pattern_map:
        if "?P<date>" not in p:
            date_tpl.discard(tp)
    for tp in tpaths:
        templates[tp] = draw(_template(tp in date_tpl))
    ntargets = draw(st.integers(1, 3))
    targets = []
    for rel in draw(st.lists(st.sampled_from(TARGETS), min_size=ntargets, max_size=ntargets, unique=True)):
        exists = draw(st.integers(0, 2)) == 0
        targets.append({
            "path": rel,
            "existing": draw(st.sampled_from(["old content\n", "", "# T\n\n- note\n", "\x00\xff bin", "no newline"])) if exists else None,
        })
    user_vars = {}
    for k in draw(st.lists(st.sampled_from(["u1", "u2", "name", "kind", "y"]), max_size=3, unique=True)):
        user_vars[k] = draw(st.sampled_from(["alpha", "Beta_2", "20240315", "x-y", "7", "20241340", "123456"]))
    route = draw(st.sampled_from(["api", "api", "cli-init", "cli-edit", "cli-open"]))
    explicit = None
    # (`zorg template init -t X` always dies in argument validation -- nargs=1 yields a list --
    # before any template code runs, so the explicit template is exercised through the API only)
    if route == "api" and draw(st.integers(0, 3)) == 0:
        cands = [tp for tp in tpaths if tp not in date_tpl]
        if cands:
            explicit = draw(st.sampled_from(cands))
    return {
        "templates": templates, "pattern_map": pattern_map, "targets": targets,
        "user_vars": user_vars if route in ("api", "cli-init") else {},
        "force": draw(st.integers(0, 3)) == 0 and route in ("api", "cli-init"),
        "route": route, "explicit": explicit,
        "extra_files": {"other.zo": "# other\n\n- keep me\n"} if draw(st.booleans()) else {},
    }


def _norm_target(rel: str) -> str:
    return rel if "." in rel else rel + ".zo"


def check(case, rec: Rec) -> None:
    from zorg.service import templates as T
    from zorg.shared import common as zc

    tmpl_objs = case["templates"]
    pmap = case["pattern_map"]
    nontriv = False
    with env.sandbox("vz-c16-") as box:
        zdir = box / "org"
        zdir.mkdir()
        files0 = {tp: template_text(t) for tp, t in tmpl_objs.items()}
        files0.update(case["extra_files"])
        if case["route"] == "cli-open":
            # `action open` on a [[link]] to a missing page initialises it with {"parent": <linking page>}
            files0["links.zo"] = "# Links\n\n" + "".join(f"- see [[{tg['path']}]]\n" for tg in case["targets"])
        for tg in case["targets"]:
            if tg["existing"] is not None:
                files0[_norm_target(tg["path"])] = tg["existing"].encode("latin-1")
        env.write_files(zdir, files0)
        before = _tree_bytes(zdir)

        # ---- model: expected tree after initialising all targets once
        expected = dict(before)
        plan = []
        for tg in case["targets"]:
            rel = _norm_target(tg["path"])
            matches = [(p, tp) for p, tp in pmap if re.compile(p).match(rel)]
            if len(matches) >= 2:
                nontriv = True
                rec.label("overlapping-match")
            exists = rel in expected  # also true if an earlier target of this case created it
            if exists:
                nontriv = True
                rec.label("existing-target")
            if exists and not case["force"]:
                plan.append((rel, "keep", None))
                continue
            chosen, vars_ = None, dict(case["user_vars"])
            if case["route"] == "cli-open":
                vars_["parent"] = "links"
            if matches:
                p, chosen = matches[0]
                vars_.update(re.compile(p).match(rel).groupdict())
            elif case["explicit"]:
                chosen = case["explicit"]
            if chosen is None:
                plan.append((rel, "nothing", None))
                rec.label("no-match")
                continue
            if any(_is_date_like(v) for v in vars_.values()):
                nontriv = True
                rec.label("date-like-var")
            if any(_DATE_RE.match(v or "") and not _is_date_like(v) for v in vars_.values()):
                nontriv = True
                rec.label("eight-digits-no-date")
            if any(re.fullmatch(r"[0-9]{6,7}|[0-9]{9}", v or "") for v in vars_.values()):
                rec.label("numeric-capture-no-date")
            text2 = mini_render(tmpl_objs[chosen], vars_)
            with rec.sut("render"):
                env.fresh_process()
                text1 = T.ZorgTemplateManager(zdir).render(
                    zc.prepend_zdir(zdir, Path(chosen)), zc.process_var_map(vars_))
            if text1 != text2:
                raise Violation("render-vs-mini-renderer",
                                f"template {chosen} vars {vars_}:\n--- zorg render\n{text1!r}\n--- own renderer\n{text2!r}")
            expected[rel] = text1.encode()
            plan.append((rel, "write", chosen))
            rec.label("written")

        # ---- run
        got_at = _run_route(case, rec, zdir, box)
        _compare(case, "first run", expected, got_at)
        # ---- twice == once (same arguments again; existing files now block unless forced)
        if case["route"] != "cli-edit":
            got2 = _run_route(case, rec, zdir, box)
            _compare(case, "second run", expected, got2)
            rec.label("twice")
    rec.label("route:" + case["route"])
    if case["force"]:
        rec.label("force")
    rec.nontrivial = nontriv


def _tree_bytes(zdir: Path) -> dict:
    out = {}
    for p in sorted(zdir.rglob("*")):
        rel = str(p.relative_to(zdir))
        if rel.startswith(".zorg"):
            continue
        out[rel + "/" if p.is_dir() else rel] = b"" if p.is_dir() else p.read_bytes()
    return out


def _compare(case, when, expected, got) -> None:
    exp = dict(expected)
    # directories implied by expected files
    for rel in list(exp):
        parts = rel.rstrip("/").split("/")[:-1]
        for i in range(1, len(parts) + 1):
            exp.setdefault("/".join(parts[:i]) + "/", b"")
    for rel in sorted(set(exp) | set(got)):
        if rel.endswith("/"):
            continue  # directories are not "written files"
        if rel not in got:
            raise Violation("missing-output", f"{when}: {rel} was not written (route {case['route']})")
        if rel not in exp:
            kind = "created-directory" if rel.endswith("/") else "unexpected-file"
            raise Violation(kind, f"{when}: {rel} appeared although nothing should be written there")
        if exp[rel] != got[rel]:
            tg = [t for t in case["targets"] if _norm_target(t["path"]) == rel]
            if tg and tg[0]["existing"] is not None and not case["force"]:
                raise Violation("existing-file-overwritten", f"{when}: {rel}: {exp[rel]!r} -> {got[rel]!r}")
            raise Violation("wrong-content", f"{when}: {rel}:\n--- expected\n{exp[rel]!r}\n--- got\n{got[rel]!r}")


def _run_route(case, rec, zdir: Path, box: Path) -> dict:
    from zorg.service import templates as T

    route = case["route"]
    if route == "api":
        env.fresh_process()
        pm = {re.compile(p): Path(tp) for p, tp in case["pattern_map"]}
        for tg in case["targets"]:
            with rec.sut("init_from_template"):
                T.init_from_template(
                    zdir, pm, tg["path"],
                    template=Path(case["explicit"]) if case["explicit"] else None,
                    var_map=dict(case["user_vars"]),
                    should_overwrite_existing=case["force"])
        return _tree_bytes(zdir)
    cfg = env.write_config(box / "cfg.yml",
                           template_pattern_map={p: tp for p, tp in case["pattern_map"]},
                           keep_alive_file=str(box / "keep_alive"), vim_exe="true")
    if route == "cli-init":
        for tg in case["targets"]:
            args = ["template", "init"]
            if case["force"]:
                args.append("-f")
            if case["explicit"]:
                args += ["-t", case["explicit"]]
            args.append(tg["path"])
            args += [f"{k}={v}" for k, v in case["user_vars"].items()]
            with rec.sut("template-init"):
                r = env.zorg(zdir, *args, config=cfg)
            if r.code != 0:
                raise Violation("cli-exit", f"zorg {' '.join(args)} exited {r.code}: {r.out[-300:]}")
        return _tree_bytes(zdir)
    if route == "cli-open":
        for i, tg in enumerate(case["targets"]):
            with rec.sut("action-open"):
                r = env.zorg(zdir, "action", "open", "links.zo", str(3 + i), config=cfg)
            rel = _norm_target(tg["path"])
            if r.code != 0 or not r.out.startswith(f"EDIT {zdir}/{rel}"):
                raise Violation("cli-open-output", f"action open on [[{tg['path']}]]: exit {r.code}, stdout {r.out!r}")
        return _tree_bytes(zdir)
    # cli-edit: look at the tree at the moment the editor is started
    import zorg.service.handlers as handlers

    snap = {}

    class _Ok:
        def unwrap(self):
            return None

    def fake_vim(*paths, **kw):
        if not snap:
            snap.update(_tree_bytes(zdir))
        return _Ok()

    old = handlers.vimala.vim
    handlers.vimala.vim = fake_vim
    try:
        with rec.sut("edit"):
            env.zorg(zdir, "edit", *[t["path"] for t in case["targets"]], config=cfg)
    finally:
        handlers.vimala.vim = old
    if not snap:
        raise Violation("editor-not-started", "edit route never started the editor")
    return snap


def parts(tier):
    return [HypPart(name="init", check=check, strategy=_case,
                    examples=400 if tier == "quick" else 6000,
                    seconds=45 if tier == "quick" else 600)]
