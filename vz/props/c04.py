"""C04 -- query text is compiled into the structure its syntax denotes."""

from __future__ import annotations

import itertools
import json

from hypothesis import strategies as st

from .. import env
from ..driver import EnumPart, HypPart, InvalidCase, Rec, Violation
from ..model import query as Q

ID = "C04"
LEVEL = "exploration"
RULE = (
    "(compile) Hypothesis draws query ASTs (all 9 select fields x count(), filter trees to depth 4 with up to "
    "6 atoms per group, every atom kind, kind characters as one or several words, O lists of 1-6 keys, G lists "
    "of 1-4 dims incl. none, both clause orders, clauses omitted independently, short / relative d,m,y / "
    "negative dates on ^ and $ with and without end, property atoms over a key/value alphabet that includes "
    "keywords, o, x, Pn, times, long dates and ZIDs) and a frozen today (month ends, 29 Feb, year ends "
    "over-weighted); the text is compiled by build_zorg_query and its structure dump must equal an independent "
    "denotation (own calendar arithmetic); then the compiled structure is rendered by a second, "
    "structure-driven renderer and recompiled (round-trip law).  (prio) all 64 spellings Pn / Pn-m alone and all "
    "4,096 ordered pairs in one group [exhaustive].  (kinds) every non-empty subset of the 6 kind characters in "
    "every character order as one word, and as separate words [exhaustive]; words with o/x adjacent are the "
    "input class of a known finding and are counted as excluded.  (cli) the documented CLI normalisation "
    "(W prefix, default G file, default O alpha).  Non-trivial = tree depth >= 2, or a relative month/year "
    "date, or a Pn-m range, or G written before O, or a kind atom of >= 2 characters; distinct by SHA-1 of the case."
)
ASSUMPTIONS = [
    "well-formed = what ZorgQuery.g4 admits plus the two forms the project itself uses although the parser flags "
    "them (single digit 1-9 as property value, date after a comparison operator) and quoted text containing a "
    "reserved literal token; every other parse error of a generated query is a generator bug (exit 2)",
    "identifiers exclude the lexer's reserved literals (S W O G c note prop links count 1..9) and date look-alikes",
    "clock controlled with freezegun",
]
EXPLANATION = "priority spellings and kind subsets/orders are enumerated completely; everything else is sampled"

_TODAYS = ["2024-01-31", "2024-02-29", "2023-02-28", "2024-03-31", "2024-12-31", "2000-01-03", "2024-05-30",
           "2025-01-01", "2024-08-31", "2024-10-31", "2019-12-31", "2024-06-15"]


@st.composite
def _case(draw):
    import datetime as dt

    today = draw(st.sampled_from(_TODAYS)) if draw(st.integers(0, 2)) else \
        draw(st.dates(dt.date(2001, 1, 1), dt.date(2060, 12, 31))).isoformat()
    return {"q": draw(Q.query(max_depth=3)), "today": today}


def _first_diff(a, b, path="") -> str:
    if type(a) is not type(b):
        return f"{path}: {a!r} != {b!r}"
    if isinstance(a, dict):
        for k in a:
            if k not in b:
                return f"{path}.{k} missing"
            if a[k] != b[k]:
                return _first_diff(a[k], b[k], f"{path}.{k}")
        return f"{path}: key sets differ"
    if isinstance(a, list):
        if len(a) != len(b):
            return f"{path}: length {len(a)} != {len(b)}: {a!r} vs {b!r}"
        for i, (x, y) in enumerate(zip(a, b)):
            if x != y:
                return _first_diff(x, y, f"{path}[{i}]")
    return f"{path}: {a!r} != {b!r}"


def _clause_of(diff: str) -> str:
    # ".where[0].props: ..." -> "where.props"
    head = diff.split(":", 1)[0]
    import re

    names = re.findall(r"\.([a-z]+)", head)
    return ".".join(dict.fromkeys(names)) or "structure"


def check_compile(case, rec: Rec) -> None:
    from zorg.service.compiler import build_zorg_query

    q = case["q"]
    today = tuple(int(x) for x in case["today"].split("-"))
    text = Q.render(q)
    tolerated = Q.has_tolerated_syntax(q["where"])
    errs = Q.syntax_errors(text)
    if errs and not tolerated and not known_class(case):
        raise InvalidCase(f"generated query is not well-formed: {text!r}: {errs[:2]}")
    exp = Q.denote(q, today)
    with env.frozen(case["today"]):
        with rec.sut("build_zorg_query"):
            got = build_zorg_query(text)
            dump = Q.dump_query(got)
        if dump != exp:
            d = _first_diff(exp, dump)
            raise Violation("denotation:" + _clause_of(d),
                            f"query {text!r} today={case['today']}\n first difference (expected vs compiled) at {d}")
        # round-trip law: structure -> text -> structure
        try:
            text2 = Q.render_struct(dump)
        except Q.Unrenderable as e:
            rec.label("roundtrip-skipped")
            text2 = None
        if text2 is not None:
            with rec.sut("build_zorg_query(roundtrip)"):
                got2 = build_zorg_query(text2)
                dump2 = Q.dump_query(got2)
            if dump2 != dump:
                d = _first_diff(dump, dump2)
                raise Violation("roundtrip:" + _clause_of(d),
                                f"structure of {text!r} rendered as {text2!r} compiles to a different structure: {d}")
            if got2 != got:
                raise Violation("roundtrip:dataclass-eq", f"{text!r} vs {text2!r}: Query objects differ")
    # classification
    depth = Q.depth_of(q["where"])
    atoms = list(Q.walk_atoms(q["where"]))
    relmy = any(a["t"] in ("create", "modify") and any(
        d is not None and d["k"] == "rel" and d["u"] in "my" for d in (a["start"], a["end"])) for a in atoms)
    prange = any(a["t"] == "prio" and a["m"] is not None for a in atoms)
    go = bool(q["go"] and q["order"] and q["group"])
    if depth >= 2:
        rec.label("depth>=2")
    if depth >= 3:
        rec.label("depth>=3")
    if relmy:
        rec.label("relative-month/year")
    if prange:
        rec.label("prio-range")
    if go:
        rec.label("G-before-O")
    for a in atoms:
        rec.label("atom:" + a["t"])
        if a.get("neg"):
            rec.label("negated")
    for t in tolerated:
        rec.label("tolerated:" + t)
    if q["select"] is None:
        rec.label("S-omitted")
    if q["where"] is None:
        rec.label("W-omitted")
    multikind = any(a["t"] == "kinds" and sum(len(w) for w in a["words"]) >= 2 for a in atoms)
    if multikind:
        rec.label("kinds>=2chars")
    rec.nontrivial = depth >= 2 or relmy or prange or go or multikind


def known_class(case) -> set:
    out = set()
    q = case.get("q")
    if not q:
        return out
    if q["select"] is not None and q["select"]["k"] == "propval" and Q.colon_trap(q["select"]["key"]):
        out.add("colon-date-lexing")
    for a in Q.walk_atoms(q["where"]):
        if a["t"] == "prop" and a["op"] == "eq" and Q.colon_trap(a["value"]):
            out.add("colon-date-lexing")
        if a["t"] == "desc" and a.get("reserved"):
            out.add("quoted-reserved-token")
        if a["t"] == "kinds":
            for w in a["words"]:
                if any(x in "ox" and y in "ox" for x, y in zip(w, w[1:])):
                    out.add("kind-word-ox-adjacent")
    return out


# ---------------------------------------------------------------- exhaustive: priorities

def _prio_spellings():
    out = []
    for n in range(0, 10):
        out.append({"t": "prio", "n": n, "m": None})
        for m in range(max(n, 1), 10):
            out.append({"t": "prio", "n": n, "m": m})
    return out


def _prio_items():
    sp = _prio_spellings()
    assert len(sp) == 64
    items = []
    for a in sp:
        items.append({"today": "2024-06-15",
                      "q": {"select": None, "where": {"ands": [{"atoms": [a]}]}, "order": None, "group": None, "go": False}})
    for a, b in itertools.product(sp, sp):
        items.append({"today": "2024-06-15",
                      "q": {"select": None, "where": {"ands": [{"atoms": [a, {"t": "tag", "kind": "#", "name": "t", "neg": False}, b]}]},
                            "order": None, "group": None, "go": False}})
    return items


def _kind_items():
    items = []
    for k in range(1, 7):
        for combo in itertools.combinations(Q.KIND_CHARS, k):
            for perm in itertools.permutations(combo):
                items.append({"today": "2024-06-15", "q": {
                    "select": None, "where": {"ands": [{"atoms": [{"t": "kinds", "words": ["".join(perm)]}]}]},
                    "order": None, "group": None, "go": False}})
            items.append({"today": "2024-06-15", "q": {
                "select": None, "where": {"ands": [{"atoms": [{"t": "kinds", "words": list(combo)}]}]},
                "order": None, "group": None, "go": False}})
            # a repeated character changes nothing
            items.append({"today": "2024-06-15", "q": {
                "select": None, "where": {"ands": [{"atoms": [{"t": "kinds", "words": list(combo) + [combo[0]]}]}]},
                "order": None, "group": None, "go": False}})
    return items


# ---------------------------------------------------------------- CLI normalisation

@st.composite
def _cli_case(draw):
    q = draw(Q.query(max_depth=2))
    return {"q": q, "today": draw(st.sampled_from(_TODAYS)), "strip_w": draw(st.booleans())}


def check_cli(case, rec: Rec) -> None:
    from clack import clack_envvars_set
    from zorg.app.config import QueryConfig, clack_parser
    from zorg.service.compiler import build_zorg_query

    q = case["q"]
    text = Q.render(q)
    if known_class(case):
        return
    # the normaliser looks for the substrings " G " / " O " in the raw text
    if any(a["t"] == "desc" and (" G " in " " + a["text"] + " " or " O " in " " + a["text"] + " ")
           for a in Q.walk_atoms(q["where"])):
        raise InvalidCase("quoted text contains a bare G/O word")
    arg = text
    if case["strip_w"] and q["select"] is None and text.startswith("W "):
        arg = text[2:]
        if arg.startswith(("S ", "W ")):
            arg = text
    today = tuple(int(x) for x in case["today"].split("-"))
    exp = Q.denote(q, today)
    if q["select"] is None and not q["group"]:
        exp["group"] = ["FILE"]
    if q["select"] is not None and not (q["select"]["k"] == "note" and not q["select"]["count"]) and not q["order"]:
        exp["order"] = ["ALPHA"]
    if arg.startswith("-") or arg.startswith("!"):
        rec.label("arg-starts-with-dash-or-bang")
    with env.frozen(case["today"]):
        with rec.sut("clack_parser"):
            with clack_envvars_set("zorg", [QueryConfig]):
                kwargs = clack_parser(["zorg", "query", "--", arg] if arg.startswith("-") else ["zorg", "query", arg])
        norm = kwargs["query"]
        with rec.sut("build_zorg_query"):
            dump = Q.dump_query(build_zorg_query(norm))
    if dump != exp:
        d = _first_diff(exp, dump)
        raise Violation("cli-normalise:" + _clause_of(d), f"argument {arg!r} normalised to {norm!r}: {d}")
    rec.label("cli")
    if arg is not text:
        rec.label("W-prefix-added")
    rec.nontrivial = (q["select"] is None and not q["group"]) or \
        (q["select"] is not None and not q["order"]) or arg is not text


REQUIRED_LABELS = {"depth>=2": 0.05, "relative-month/year": 0.03, "prio-range": 0.03, "G-before-O": 0.03,
                   "atom:desc": 0.05, "atom:file": 0.05, "atom:link": 0.05, "atom:prop": 0.05, "negated": 0.05}


def sample_view(case):
    return f"{Q.render(case['q'])}    (today = {case['today']})"


def parts(tier):
    from ..engine import load_findings

    Q.set_open({f["key"] for f in load_findings(ID) if f.get("status") == "known"})
    quick = tier == "quick"
    return [
        HypPart(name="compile", check=check_compile, strategy=_case, known_class=known_class,
                examples=400 if quick else 20000, seconds=45 if quick else 600),
        EnumPart(name="prio", check=check_compile, items=_prio_items, known_class=known_class),
        EnumPart(name="kinds", check=check_compile, items=_kind_items, known_class=known_class),
        HypPart(name="cli", check=check_cli, strategy=_cli_case,
                examples=60 if quick else 1500, seconds=30 if quick else 300),
    ]
