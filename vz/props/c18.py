"""C18 -- file-group expansion flattens groups in place and in order."""

from __future__ import annotations

import datetime as dt
from pathlib import Path

from hypothesis import strategies as st

from .. import env
from ..driver import HypPart, InvalidCase, Rec, Violation

ID = "C18"
LEVEL = "exploration"
RULE = (
    "Hypothesis draws an acyclic group map (members reference only later group names; "
    "depth <= 5; shared sub-groups; date patterns {yyyymmdd[i]}, {days[i]:%fmt}, "
    "{days[i].attr} for i in 0..6), two argument lists mixing @group / str / Path "
    "arguments and a frozen day (year/month boundaries over-weighted); the oracle is an "
    "own recursive flatten with own calendar arithmetic plus the concatenation law, an "
    "unused-group metamorphic check and (1 case in 4) the `zorg @group ...` CLI route "
    "with the editor stubbed.  Non-trivial = nesting depth >= 2, or a sub-group reached "
    "twice from one argument, or a date pattern with i >= 1; distinct by SHA-1 of the case."
)
ASSUMPTIONS = [
    "group maps are acyclic (the property's precondition)",
    "member names are drawn from [A-Za-z0-9_./-] so str.format sees no stray braces; ordinary (non-group) "
    "path arguments do contain braces (1 in 10) and must come back unchanged",
    "clock controlled with freezegun (all of zorg's today()/now() go through datetime)",
]

_NAME = st.text("abcdefghijklmnopqrstuvwxyz0123456789_", min_size=1, max_size=6)
_DAYS = [
    "2024-01-01", "2024-01-03", "2024-01-06", "2024-03-01", "2024-03-02", "2023-03-01",
    "2024-12-31", "2025-01-05", "2000-01-03", "2024-07-15", "2024-02-29", "2024-11-03",
]


_BRACED = ["tmpl/{{name}}.zo", "{yyyymmdd[0]}.zo", "drafts/{wip}.zo", "set_{a,b}.zo", "notes/{}.zo", "odd}.zo",
           "{days[1]:%Y}/log.zo", "{0}.zo", "a{", "{days[6].year}"]


@st.composite
def _pattern(draw):
    segs = []
    n = draw(st.integers(1, 4))
    for _ in range(n):
        kind = draw(st.sampled_from(["lit", "lit", "ymd", "fmt", "attr"]))
        if kind == "lit":
            segs.append(["lit", draw(st.sampled_from(
                ["a", "log", "x/", "2024/", "_done", ".zo", "-", "n1", "sub/dir/"]))])
        elif kind == "ymd":
            segs.append(["ymd", draw(st.integers(0, 6))])
        elif kind == "fmt":
            segs.append(["fmt", draw(st.integers(0, 6)),
                         draw(st.sampled_from(["%Y", "%Y%m%d", "%m", "%d", "%Y-%m", "%y%m%d", "%j"]))])
        else:
            segs.append(["attr", draw(st.integers(0, 6)),
                         draw(st.sampled_from(["year", "month", "day"]))])
    return {"pat": segs}


@st.composite
def _case(draw):
    ngroups = draw(st.integers(1, 6))
    names = draw(st.lists(_NAME, min_size=ngroups, max_size=ngroups, unique=True))
    groups = {}
    for i, name in enumerate(names):
        later = names[i + 1:]
        members = []
        for _ in range(draw(st.integers(0, 5))):
            k = draw(st.integers(0, 9))
            if later and k < 5:
                members.append({"ref": draw(st.sampled_from(later))})
            elif k < 8:
                members.append(draw(_pattern()))
            else:
                members.append({"pat": [["lit", draw(_NAME) + draw(st.sampled_from(["", ".zo", ".txt"]))]]})
        groups[name] = members
    unused = draw(_NAME.filter(lambda n: n not in names))

    def arglist():
        out = []
        for _ in range(draw(st.integers(0, 5))):
            k = draw(st.integers(0, 9))
            if k < 6:
                out.append({"ref": draw(st.sampled_from(names[: max(1, (len(names) + 1) // 2)] if k < 4 else names))})
            elif k < 9:
                out.append({"path": draw(_NAME) + draw(st.sampled_from(["", ".zo", "/p.zo"])),
                            "as_path": draw(st.booleans())})
            else:
                # ordinary paths are left untouched even when they look like member patterns
                out.append({"path": draw(st.sampled_from(_BRACED)), "as_path": draw(st.booleans()), "braced": True})
        return out

    return {
        "today": draw(st.sampled_from(_DAYS)) if draw(st.integers(0, 3)) else
        draw(st.dates(dt.date(2000, 1, 1), dt.date(2035, 12, 31))).isoformat(),
        "hhmm": draw(st.sampled_from(["00:00", "12:00", "23:59"])),
        "names": names,
        "groups": groups,
        "unused": unused,
        "xs": arglist(),
        "ys": arglist(),
        "cli": draw(st.integers(0, 3)) == 0,
    }


# ---------------------------------------------------------------- oracle

_MDAYS = [31, 28, 31, 30, 31, 30, 31, 31, 30, 31, 30, 31]


def _leap(y):
    return y % 4 == 0 and (y % 100 != 0 or y % 400 == 0)


def _minus_days(y, m, d, n):
    """Own calendar arithmetic: (y, m, d) minus n days."""
    for _ in range(n):
        d -= 1
        if d == 0:
            m -= 1
            if m == 0:
                m = 12
                y -= 1
            d = 29 if (m == 2 and _leap(y)) else _MDAYS[m - 1]
    return y, m, d


def _yday(y, m, d):
    n = d
    for i in range(m - 1):
        n += 29 if (i == 1 and _leap(y)) else _MDAYS[i]
    return n


def _fmt(ymd, f):
    y, m, d = ymd
    table = {"%Y": f"{y:04d}", "%m": f"{m:02d}", "%d": f"{d:02d}", "%y": f"{y % 100:02d}",
             "%j": f"{_yday(y, m, d):03d}"}
    out = f
    for k, v in table.items():
        out = out.replace(k, v)
    return out


def _model_member(mem, today):
    s = ""
    for seg in mem["pat"]:
        if seg[0] == "lit":
            s += seg[1]
        else:
            ymd = _minus_days(*today, seg[1])
            if seg[0] == "ymd":
                s += _fmt(ymd, "%Y%m%d")
            elif seg[0] == "fmt":
                s += _fmt(ymd, seg[2])
            else:
                s += str({"year": ymd[0], "month": ymd[1], "day": ymd[2]}[seg[2]])
    return s


def _zorg_member(mem):
    s = ""
    for seg in mem["pat"]:
        if seg[0] == "lit":
            s += seg[1]
        elif seg[0] == "ymd":
            s += "{yyyymmdd[%d]}" % seg[1]
        elif seg[0] == "fmt":
            s += "{days[%d]:%s}" % (seg[1], seg[2])
        else:
            s += "{days[%d].%s}" % (seg[1], seg[2])
    return s


def _model_group(name, groups, today, depth, stats):
    out = []
    stats["depth"] = max(stats["depth"], depth)
    for mem in groups[name]:
        if "ref" in mem:
            stats["visits"][mem["ref"]] = stats["visits"].get(mem["ref"], 0) + 1
            out.extend(_model_group(mem["ref"], groups, today, depth + 1, stats))
        else:
            if any(seg[0] != "lit" and seg[1] >= 1 for seg in mem["pat"]):
                stats["datepat"] = True
            out.append(_model_member(mem, today))
    return out


def _model(args, groups, today, stats):
    out = []
    for a in args:
        if "ref" in a:
            stats["visits"] = {}
            out.extend(_model_group(a["ref"], groups, today, 1, stats))
            if any(v >= 2 for v in stats["visits"].values()):
                stats["shared"] = True
        else:
            out.append(a["path"])
    return out


def _zorg_args(args):
    out = []
    for a in args:
        if "ref" in a:
            out.append(Path("@" + a["ref"]) if a.get("as_path") else "@" + a["ref"])
        else:
            out.append(Path(a["path"]) if a.get("as_path") else a["path"])
    return out


def check(case, rec: Rec) -> None:
    from zorg.service.file_groups import expand_file_group_paths

    today = tuple(int(x) for x in case["today"].split("-"))
    groups = case["groups"]
    gmap = {n: [("@" + m["ref"]) if "ref" in m else _zorg_member(m) for m in mems]
            for n, mems in groups.items()}
    stats = {"depth": 0, "visits": {}, "shared": False, "datepat": False}
    exp_x = _model(case["xs"], groups, today, stats)
    exp_y = _model(case["ys"], groups, today, stats)

    def norm(paths):
        return [str(Path(p)) for p in paths]

    def run(args, m):
        with rec.sut("expand"):
            got = expand_file_group_paths(args, file_group_map=m)
        if not all(isinstance(p, Path) for p in got):
            raise Violation("result-type", f"non-Path element in {got!r}")
        return [str(p) for p in got]

    with env.frozen(case["today"], case["hhmm"]):
        gx = run(_zorg_args(case["xs"]), gmap)
        gy = run(_zorg_args(case["ys"]), gmap)
        gxy = run(_zorg_args(case["xs"] + case["ys"]), gmap)
        # an unused group must not influence anything
        gmap2 = dict(gmap)
        gmap2[case["unused"]] = ["zzz_unused.zo", "@" + case["names"][0]]
        gx2 = run(_zorg_args(case["xs"]), gmap2)
        # input must not be mutated
        if gmap != {n: [("@" + m["ref"]) if "ref" in m else _zorg_member(m) for m in mems]
                    for n, mems in groups.items()}:
            raise Violation("mutated-config", "file_group_map was modified by expansion")
        if gx != norm(exp_x):
            raise Violation("flatten", f"args={case['xs']} expected {norm(exp_x)} got {gx}")
        if gy != norm(exp_y):
            raise Violation("flatten", f"args={case['ys']} expected {norm(exp_y)} got {gy}")
        if gxy != gx + gy:
            raise Violation("concat-law", f"expand(xs+ys)={gxy} != {gx}+{gy}")
        if gx2 != gx:
            raise Violation("unused-group", f"adding an unused group changed {gx} -> {gx2}")
        if case.get("cli") and case["xs"] and "ref" in case["xs"][0] and not any(a.get("braced") for a in case["xs"]):
            _check_cli(case, rec, gmap, exp_x)

    if stats["depth"] >= 2:
        rec.label("depth>=2")
    if stats["depth"] >= 3:
        rec.label("depth>=3")
    if stats["shared"]:
        rec.label("shared-subgroup")
    if stats["datepat"]:
        rec.label("date-pattern-i>=1")
    if case.get("cli") and case["xs"] and "ref" in case["xs"][0] and not any(a.get("braced") for a in case["xs"]):
        rec.label("cli-route")
    if any(a.get("braced") for a in case["xs"] + case["ys"]):
        rec.label("ordinary-path-with-braces")
    rec.nontrivial = stats["depth"] >= 2 or stats["shared"] or stats["datepat"]


def _check_cli(case, rec, gmap, exp_x) -> None:
    """`zorg @group path ...` infers `edit`; the editor must get the flattened list."""
    import zorg.service.handlers as handlers

    calls = []

    class _Ok:
        def unwrap(self):
            return None

    def fake_vim(*paths, **kw):
        calls.append([str(p) for p in paths])
        return _Ok()

    with env.sandbox("vz-c18-") as box:
        zdir = box / "org"
        zdir.mkdir()
        cfg = env.write_config(box / "cfg.yml", file_group_map=gmap,
                               keep_alive_file=str(box / "keep_alive"), vim_exe="true")
        args = [("@" + a["ref"]) if "ref" in a else a["path"] for a in case["xs"]]
        old = handlers.vimala.vim
        handlers.vimala.vim = fake_vim
        try:
            with rec.sut("cli-edit"):
                r = env.zorg(zdir, *args, config=cfg)
        finally:
            handlers.vimala.vim = old
        if r.code != 0:
            raise Violation("cli-exit", f"`zorg {' '.join(args)}` exited {r.code}: {r.out[-300:]}")
        if len(calls) != 1:
            raise Violation("cli-editor-calls", f"editor called {len(calls)} times")
        exp = []
        for p in exp_x:
            p = str(Path(p))
            q = p if "." in p else p + ".zo"
            exp.append(str(zdir / Path(q)))
        if calls[0] != exp:
            raise Violation("cli-flatten", f"editor got {calls[0]} expected {exp}")


def parts(tier):
    n = 300 if tier == "quick" else 6000
    return [HypPart(name="expand", check=check, strategy=_case, examples=n,
                    seconds=40 if tier == "quick" else 600)]
