"""C06 -- incremental reindexing is equivalent to rebuilding the index."""

from __future__ import annotations

import shutil
from pathlib import Path

from hypothesis import strategies as st

from .. import env
from ..driver import Excluded, HypPart, InvalidCase, Rec, Violation
from ..model import dbdump, edits
from ..model import page as P

ID = "C06"
LEVEL = "exploration"
RULE = (
    "Hypothesis draws an initial directory (1-3 pages, all notes with ZIDs, sections, inherited header metadata; half "
    "of them from the small-pool generator whose notes and pages share tags, properties and links), "
    "indexes it with `db create`, then a history of 3-14 steps interpreted against the current state: append a "
    "word / bullet to a note, change kind or priority, add a note (with or without ZID), delete a note, move a "
    "note with its ZID to another page, add a tag / property / date to a title or section header (changes what "
    "untouched notes inherit), add a section, touch a file, add / delete / rename a page, bring a deleted / renamed "
    "page back byte-identical under its old name, break a page (an "
    "unfinished line that is a syntax error: reindex must refuse) and repair it later, advance the calendar by "
    "1-40 days, `db reindex`, `db reindex <absolute paths of a subset>`; finally a plain `db reindex`.  Oracle "
    "(differential): the final files are copied to a fresh directory and indexed with `db create` under the same "
    "frozen day; the canonical dump of the incremental index (notes with every field, page "
    "rows) must equal the fresh one, 7 fixed queries must print the same text on both, and the rebuild must not "
    "need to change any file.  Every edit is gated by an independent parse (invalid edits are skipped and "
    "counted).  Non-trivial = >= 1 reindex before the final one and >= 2 of {page delete, page rename, note move, "
    "explicit-path reindex, refused reindex, day advance followed by an edit}; distinct by SHA-1 of the history."
)
ASSUMPTIONS = [
    "explicit paths are passed absolute (a relative path is resolved against the process cwd: caller precondition)",
    "histories keep canonical spacing (irregular spacing and hand-written stamps are C05/C11 territory)",
    "orphan rows of the tag tables and surrogate ids are not part of the dump (no query can observe them)",
]

QUERIES = ["S note O none", "S note W o G file O priority alpha", "S # O alpha", "S file", "S prop O alpha",
           "S links O alpha", "S note G section O alpha", "S count(note) G file type"]
DAY0 = (2024, 3, 1)


@st.composite
def _case(draw):
    # half of the directories come from the small-pool generator: tags / properties / links shared
    # between notes and pages (rows of the tag tables are shared, too)
    from ..gen import index as G

    d = draw(st.one_of(P.directory(1, 3, rich=False, max_headers=3, all_zids=True, canonical_spacing=True),
                       G.directory(n_pages=(2, 3), notes_per_page=(2, 4))))
    steps = draw(st.lists(edits.step(), min_size=3, max_size=14))
    if draw(st.integers(0, 3)) == 0:
        # a page vanishes, the index learns about it, and the page comes back byte-identical under its old
        # name (rename undone, restored from a backup): a shape single steps rarely line up by themselves
        sel = {"p": draw(st.integers(0, 50)), "n": 0}
        gone = dict(sel, op="del_page") if draw(st.booleans()) else dict(sel, op="rename_page", sub=draw(st.booleans()))
        macro = [gone, {"op": "reindex"}]
        if draw(st.booleans()):
            macro.append(draw(edits.step(allow_page_ops=False)))
        macro += [{"op": "restore_page", "n": draw(st.integers(0, 3))}, {"op": "reindex"}]
        at = draw(st.integers(0, len(steps)))
        steps[at:at] = macro
    return {"dir": d, "steps": steps}


def canon(d: dict) -> dict:
    notes = []
    part = {}
    for n in d["notes"]:
        m = {k: v for k, v in n.items() if k != "block_id"}
        notes.append(m)
        part.setdefault(n["block_id"], []).append((n["page"], n["line"]))
    return {"pages": d["pages"], "notes": notes, "blocks": sorted(sorted(v) for v in part.values())}


def day_str(n: int) -> str:
    from ..model.query import add_days, iso

    return iso(add_days(DAY0, n))


def check(case, rec: Rec) -> None:
    from zorg.service import swog

    files = {}
    for rel, pg in case["dir"].items():
        files[rel] = P.render(pg, day_str(0))[0]
        if any(P.independent_parse(files[rel])[:2]):
            raise InvalidCase("page does not parse cleanly")
    with env.sandbox("vz-c06-") as box:
        zdir = box / "org"
        zdir.mkdir()
        env.write_files(zdir, files)
        day = 0
        with env.frozen(day_str(day)):
            r = env.zorg(zdir, "db", "create")
        if r.code != 0:
            raise InvalidCase(f"db create failed: {r.out[-200:]}")
        wd = edits.Workdir(zdir)
        log = []
        flags = set()
        reindexes = 0
        advanced_pending = False
        for st_ in case["steps"] + [{"op": "fix_pages"}, {"op": "reindex"}]:
            op = st_["op"]
            if op == "advance_day":
                day += st_["days"]
                advanced_pending = True
                log.append(f"advance to {day_str(day)}")
                continue
            if op in ("reindex", "reindex_paths"):
                args = ["db", "reindex"]
                if op == "reindex_paths":
                    pages = wd.pages()
                    if not pages:
                        continue
                    sel = sorted({pages[i % len(pages)] for i in st_["sel"]})
                    args += [str(zdir / p) for p in sel]
                    flags.add("explicit-path-reindex")
                with env.frozen(day_str(day)):
                    with rec.sut("db-reindex"):
                        r = env.zorg(zdir, *args)
                log.append(" ".join(args[1:]).replace(str(zdir) + "/", "") + f" -> exit {r.code}")
                if r.code != 0 and wd.broken_pages():
                    flags.add("refused-reindex")  # a page is (transiently) broken: refusing is right
                    continue
                if r.code != 0:
                    raise Violation("reindex-failed", "history:\n  " + "\n  ".join(log) + f"\n{r.out[-400:]}")
                reindexes += 1
                continue
            with env.frozen(day_str(day)):
                what = wd.apply(st_, day_str(day))
            if what is None:
                continue
            log.append(what)
            if op in ("del_page", "rename_page", "move_note", "break_page", "restore_page", "strip_page"):
                flags.add(op)
            if advanced_pending:
                flags.add("edit-after-day-advance")
                advanced_pending = False
        # ---- oracle: rebuild from the final files
        final = env.read_tree(zdir)
        fresh = box / "fresh"
        fresh.mkdir()
        env.write_files(fresh, final)
        with env.frozen(day_str(day)):
            r = env.zorg(fresh, "db", "create")
            if r.code != 0:
                raise Violation("rebuild-failed", "history:\n  " + "\n  ".join(log) + f"\n`db create` on the final files "
                                f"exited {r.code}: {r.out[-300:]}")
            a, b = canon(dbdump.dump(zdir)), canon(dbdump.dump(fresh))
            hist = "history:\n  " + "\n  ".join(log)
            if a["pages"] != b["pages"]:
                extra = sorted(set(map(tuple, a["pages"])) - set(map(tuple, b["pages"])))
                missing = sorted(set(map(tuple, b["pages"])) - set(map(tuple, a["pages"])))
                raise Violation("pages:" + ("stale" if extra else "missing"),
                                f"{hist}\nincremental index has page rows {a['pages']}, rebuilt index {b['pages']}")
            za = {(n["page"], n["zid"]): n for n in a["notes"]}
            zb = {(n["page"], n["zid"]): n for n in b["notes"]}
            if len(a["notes"]) != len(za):
                raise Violation("duplicate-note", f"{hist}\n{[k for k in za]}")
            if set(za) != set(zb):
                raise Violation("notes:" + ("stale" if set(za) - set(zb) else "missing"),
                                f"{hist}\nonly incremental: {sorted(set(za) - set(zb))}\nonly rebuilt: {sorted(set(zb) - set(za))}")
            for k in za:
                for f in za[k]:
                    if za[k][f] != zb[k][f]:
                        raise Violation("note-field:" + f, f"{hist}\nnote {k}: {f} incremental {za[k][f]!r}, rebuilt {zb[k][f]!r}")
            # (how notes are grouped into blocks is not observable by any query: not compared here)
            if env.read_tree(fresh) != final:
                ch = [k for k, v in env.read_tree(fresh).items() if final.get(k) != v]
                raise Violation("rebuild-changed-files", f"{hist}\nrebuild rewrote {ch}")
            for q in QUERIES:
                env.fresh_process()
                with rec.sut("swog.execute"):
                    oa = swog.execute(zdir, env.db_url(zdir), q)
                    env.fresh_process()
                    ob = swog.execute(fresh, env.db_url(fresh), q)
                env.fresh_process()
                if oa != ob:
                    raise Violation("query-differs", f"{hist}\nquery {q!r}:\n--- incremental\n{oa}\n--- rebuilt\n{ob}")
    for f in flags:
        rec.label(f)
    rec.info["skipped_edits"] = wd.skipped
    rec.info["steps"] = len(log)
    rec.nontrivial = reindexes >= 2 and len(flags) >= 2


def sample_view(case):
    return f"{len(case['dir'])} pages {sorted(case['dir'])}; steps: " + "; ".join(
        s["op"] + "".join(f" {k}={v}" for k, v in s.items() if k not in ("op", "p", "n")) for s in case["steps"])


def parts(tier):
    quick = tier == "quick"
    return [HypPart(name="history", check=check, strategy=_case,
                    examples=10 if quick else 300, seconds=50 if quick else 600)]
