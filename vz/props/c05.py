"""C05 -- after `db create` index and files agree; files change only to gain ZIDs."""

from __future__ import annotations

import re
from pathlib import Path

from hypothesis import strategies as st

from .. import env
from ..driver import HypPart, InvalidCase, Rec, Violation
from ..model import dbdump
from ..model import page as P

ID = "C05"
LEVEL = "exploration"
RULE = (
    "Hypothesis draws directories of 1-3 pages (sub-directories; C01 page generator: items with and without "
    "ZID, leading YYYY-MM-DD dates, irregular gaps after the prefix / priority, multi-line items, H1-H4 "
    "sections, inherited header metadata), a frozen day, optionally per-date ZID counters already advanced to "
    "interesting chain positions (look-alike skips, carries, 2->3 extension) and 0-3 follow-up commands (`db create` "
    "/ `db reindex`); 1 case in 25 is repeated with every command in a real fresh process and must give "
    "byte-identical files and the same index. "
    "Oracle: (1) byte-level file diff model: every line equals the original except first lines of items that "
    "lacked a ZID, which must read prefix[ Pn][ written YYMMDD] + new ZID + original rest (minus a leading long date), the ZID "
    "carrying that item's creation date; (2) every item has a ZID afterwards, all distinct; (3) recompiling each "
    "file gives exactly the raw index rows: page, line, section path, partition into blocks, ZID, kind, priority, body, "
    "dates, tags, links, properties; (4) each follow-up command leaves all file bytes and the dump unchanged.  "
    "Non-trivial = directory with >= 1 item without and >= 1 with ZID and one of {irregular spacing, long-date "
    "item, multi-line item without ZID, sub-directory}; distinct by SHA-1 of the case."
)
ASSUMPTIONS = [
    "pages are error-free (gated by an independent parse) and use the lexer's alphabet, LF line endings",
    "ZIDs written in the generated pages are pairwise distinct (the index identifies notes by ZID)",
    "the suffix of a newly allocated ZID is not predicted (only its form, date and uniqueness)",
]

_ZID = re.compile(r"^\d{6}#[0-9A-Za-z]{2,3}$")
FIELDS = ["page", "line", "section", "zid", "kind", "priority", "body", "create", "modify",
          "areas", "contexts", "people", "projects", "links", "props"]


@st.composite
def _case(draw):
    return {"dir": draw(P.directory(1, 3, rich=True, max_headers=3)),
            "today": draw(st.sampled_from(["2024-06-15", "2000-01-03", "2031-12-31"])),
            "more": draw(st.lists(st.sampled_from(["create", "reindex"]), max_size=3)),
            # the directory has been used before: per-date ZID counters already advanced (to positions
            # just before look-alike characters are skipped, carries, the 2->3 character extension)
            "counter_pos": draw(st.one_of(st.none(), st.sampled_from([16, 22, 24, 36, 38, 39, 40, 45, 48, 49, 50, 2040, 2598, 2600, 2601, 5201, 135240]),
                                          st.integers(0, 3000))),
            # 1 case in 25: the same commands again, each in a real fresh process (validates the
            # in-process emulation of process boundaries)
            "subproc": draw(st.integers(0, 24)) == 0,
            # 1 case in 5: some blank lines carry a control character outside the lexer's alphabet (^L page
            # breaks, VT, FS/GS/RS).  zorg drops such characters, so the line still is a blank line and the page
            # still is error-free; Python's str.splitlines() would break lines there, "\n".split does not.
            "ctrl": draw(st.lists(st.tuples(st.integers(0, 40), st.sampled_from(["\x0c", "\x0c", "\x0b", "\x1c", "\x1d", "\x1e"])),
                                  min_size=1, max_size=3)) if draw(st.integers(0, 4)) == 0 else []}


def agreement(zdir: Path, rels, what: str) -> list:
    """recompiled files == raw index rows; returns the dump rows."""
    d = dbdump.dump(zdir)
    compiled = []
    for rel in sorted(rels):
        he, rows = dbdump.flatten_compiled(zdir, rel)
        if he:
            raise Violation("page-broken", f"{what}: {rel} has syntax errors after the command")
        compiled.extend(rows)
    compiled.sort(key=lambda r: (r["page"], r["line"], r["zid"] or ""))
    rows = d["notes"]
    if sorted(p[0] for p in d["pages"]) != sorted(rels):
        raise Violation("index-pages", f"{what}: indexed pages {d['pages']}, files {sorted(rels)}")
    if len(rows) != len(compiled):
        raise Violation("index-note-count", f"{what}: {len(rows)} indexed notes, {len(compiled)} notes in the files")
    for a, b in zip(rows, compiled):
        for f in FIELDS:
            if a[f] != b[f]:
                raise Violation(f"index-vs-file:{f}",
                                f"{what}: {b['page']}:{b['line']}: {f} indexed {a[f]!r}, recompiled file {b[f]!r} "
                                f"(file body {b['body']!r})")
        if a["block_page"] != a["page"]:
            raise Violation("index-vs-file:block-page", f"{what}: note {a['zid']} hangs under page {a['block_page']}")
    # same partition of the notes into blocks (block ids / ordinals are surrogates)
    def partition(rs, key):
        g = {}
        for r_ in rs:
            g.setdefault(key(r_), []).append((r_["page"], r_["line"]))
        return sorted(sorted(v) for v in g.values())
    pa = partition(rows, lambda r_: r_["block_id"])
    pb = partition(compiled, lambda r_: (r_["page"], tuple(r_["section"]), r_["block"]))
    if pa != pb:
        raise Violation("index-vs-file:block", f"{what}: notes are grouped into blocks differently: index {pa}, files {pb}")
    return rows


def check(case, rec: Rec) -> None:
    today = case["today"]
    files, exps = {}, {}
    for rel, pg in case["dir"].items():
        text, exp, stats = P.render(pg, today)
        if any(P.independent_parse(text)[:2]):
            raise InvalidCase("page does not parse cleanly")
        files[rel], exps[rel] = text, (exp, pg, stats)
    if case.get("ctrl"):
        rels = sorted(files)
        planted = 0
        for sel, ch in case["ctrl"]:
            rel = rels[sel % len(rels)]
            lines = files[rel].split("\n")
            blanks = [i for i, ln in enumerate(lines[:-1]) if ln == ""]
            if blanks:
                lines[blanks[sel % len(blanks)]] = ch
                files[rel] = "\n".join(lines)
                planted += 1
        if planted:
            rec.label("control-character-on-a-blank-line")
    with env.sandbox("vz-c05-") as box, env.frozen(today):
        zdir = box / "org"
        zdir.mkdir()
        env.write_files(zdir, files)
        if case.get("counter_pos") is not None:
            import json as _json
            from .c07 import chain

            dates = {e["create"] for exp, _, _ in exps.values() for e in exp} | {today}
            (zdir / ".zorg").mkdir()
            ch = chain()
            index_of = {sfx: i for i, sfx in enumerate(ch)}
            planted = {}
            for exp, pg, _ in exps.values():
                for it in P.iter_items(pg):
                    if it["zid"]:
                        planted.setdefault(it["zid"][:6], []).append(index_of.get(it["zid"][7:], -1))
            counters = {}
            for d in sorted(dates):
                key = d[2:4] + d[5:7] + d[8:10]
                pos = case["counter_pos"]
                # a counter must never run into a ZID that is already written in the files
                while any(pos <= q < pos + 400 for q in planted.get(key, [])):
                    pos = max(q for q in planted[key] if pos <= q < pos + 400) + 1
                counters[key] = ch[min(pos, len(ch) - 1)]
            counters_json = _json.dumps(counters, indent=4)
            (zdir / ".zorg" / "next_ids.json").write_text(counters_json)
            rec.label("pre-advanced-zid-counters")
        with rec.sut("db-create"):
            r = env.zorg(zdir, "db", "create")
        if r.code != 0:
            raise Violation("create-failed", f"`db create` exited {r.code} on error-free pages: {r.out[-300:]}")
        after = env.read_tree(zdir)
        if set(after) != set(files):
            raise Violation("file-set", f"files {sorted(after)} != {sorted(files)}")
        seen = {}
        n_without = n_with = 0
        flags = set()
        for rel, text in files.items():
            exp, pg, stats = exps[rel]
            old, new = text.split("\n"), after[rel].split("\n")
            if len(old) != len(new):
                raise Violation("line-count", f"{rel}: {len(old)} lines -> {len(new)} lines\n{after[rel]}")
            items = list(P.iter_items(pg))
            first_lines = {e["line"]: (it, e) for it, e in zip(items, exp)}
            for i, (a, b) in enumerate(zip(old, new), start=1):
                it_e = first_lines.get(i)
                if it_e is None or it_e[0]["zid"]:
                    if a != b:
                        raise Violation("line-changed", f"{rel}:{i}: {a!r} -> {b!r} (not the first line of an item "
                                        f"lacking a ZID)")
                    if it_e is not None:
                        z = it_e[0]["zid"]
                        n_with += 1
                        if z in seen:
                            raise InvalidCase("duplicate planted ZID")
                        seen[z] = (rel, i)
                    continue
                it, e = it_e
                n_without += 1
                head = it["kind"] + (f" P{it['prio']}" if it["prio"] is not None else "") + " "
                rest = a[len(head):].lstrip(" ")
                if it["modify"]:
                    # a written YYMMDD modify date belongs to the prefix: the ZID goes behind it
                    head += it["modify"] + " "
                    rest = rest[len(it["modify"]):].lstrip(" ")
                if it["longdate"]:
                    rest = rest[len(it["longdate"]):].lstrip(" ")
                # the statement: ZID inserted after the prefix, taking the place of a leading long date
                # (spacing between prefix, ZID and rest is not fixed by the statement)
                m = re.match(r"^" + r" +".join(re.escape(w) for w in head.split()) + r" +(\d{6}#[0-9A-Za-z]{2,3})( +(.*))?$", b)
                if not m:
                    raise Violation("zid-not-inserted", f"{rel}:{i}: {a!r} -> {b!r}: no ZID after the prefix")
                zid, new_rest = m.group(1), (m.group(3) or "")
                if new_rest.strip(" ") != rest.strip(" "):
                    raise Violation("first-line-rest-changed",
                                    f"{rel}:{i}: {a!r} -> {b!r}: text after the new ZID is {new_rest!r}, original rest "
                                    f"{rest!r}")
                cd = e["create"]
                if zid[:6] != cd[2:4] + cd[5:7] + cd[8:10]:
                    raise Violation("zid-date", f"{rel}:{i}: new ZID {zid} but the item's creation date is {cd}")
                if zid in seen:
                    raise Violation("duplicate-zid", f"{zid} given to {seen[zid]} and {(rel, i)}")
                seen[zid] = (rel, i)
                if it["gap"] > 1:
                    flags.add("irregular-spacing")
                if it["longdate"]:
                    flags.add("long-date-item")
                if len(it["lines"]) > 1:
                    flags.add("multi-line-without-zid")
            if "/" in rel:
                flags.add("sub-directory")
        rows = agreement(zdir, files.keys(), "after db create")
        for n in rows:
            if not n["zid"] or not _ZID.match(n["zid"]):
                raise Violation("indexed-note-without-zid", f"{n['page']}:{n['line']} zid={n['zid']!r}")
        base_tree, base_dump = after, dbdump.dump(zdir)
        for i, cmd in enumerate(case["more"]):
            with rec.sut("db-" + cmd):
                r = env.zorg(zdir, "db", cmd)
            if r.code != 0:
                raise Violation("rerun-failed", f"run {i + 2} (`db {cmd}`) exited {r.code}: {r.out[-300:]}")
            t2 = env.read_tree(zdir)
            if t2 != base_tree:
                ch = [k for k in t2 if t2.get(k) != base_tree.get(k)]
                raise Violation("rerun-changed-files", f"`db {cmd}` (run {i + 2}) changed {ch}")
            d2 = dbdump.dump(zdir)
            if d2 != base_dump:
                diff = [(a, b) for a, b in zip(d2["notes"], base_dump["notes"]) if a != b][:1]
                raise Violation("rerun-changed-index", f"`db {cmd}` (run {i + 2}) changed the index: {diff}")
            rec.label("rerun-" + cmd)
        if case.get("subproc"):
            twin = box / "twin"
            twin.mkdir()
            env.write_files(twin, files)
            if case.get("counter_pos") is not None:
                (twin / ".zorg").mkdir()
                (twin / ".zorg" / "next_ids.json").write_text(counters_json)
            for cmd in ["create"] + case["more"]:
                r = env.zorg_subprocess(twin, "db", cmd, day=today)
                if r.code != 0:
                    raise Violation("subprocess:exit", f"real process `db {cmd}` exited {r.code}")
            if env.read_tree(twin) != env.read_tree(zdir):
                ch = [k for k, v in env.read_tree(twin).items() if env.read_tree(zdir).get(k) != v]
                raise Violation("subprocess:files-differ", f"real processes produced different files than the in-process run: {ch}")
            da, db_ = dbdump.dump(twin), dbdump.dump(zdir)
            strip = lambda d: [{k: v for k, v in n.items() if k != "block_id"} for n in d["notes"]]
            if strip(da) != strip(db_) or da["pages"] != db_["pages"]:
                raise Violation("subprocess:index-differs", "real processes produced a different index than the in-process run")
            rec.label("subprocess-twin")
    for f in flags:
        rec.label(f)
    if n_without:
        rec.label("items-without-zid")
    rec.info["items"] = n_with + n_without
    rec.nontrivial = n_without >= 1 and n_with >= 1 and bool(flags)


REQUIRED_LABELS = {"irregular-spacing": 0.1, "long-date-item": 0.1, "multi-line-without-zid": 0.1,
                   "sub-directory": 0.1}


def sample_view(case):
    return "\n".join(f"--- {rel}\n{P.render(pg, case['today'])[0]}" for rel, pg in case["dir"].items()) + \
        f"\nthen: db create, {case['more']}, counters at chain position {case.get('counter_pos')}"


def parts(tier):
    quick = tier == "quick"
    return [HypPart(name="create", check=check, strategy=_case,
                    examples=40 if quick else 900, seconds=55 if quick else 600)]
