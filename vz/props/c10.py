"""C10 -- `note move` relocates exactly one note and loses nothing."""

from __future__ import annotations

import re
import shutil
from pathlib import Path

from hypothesis import strategies as st

from .. import env
from ..driver import Excluded, HypPart, InvalidCase, Rec, Violation
from ..model import dbdump
from ..model import page as P
from ..model.page import W

ID = "C10"
LEVEL = "exploration"
RULE = (
    "Hypothesis draws an indexed directory of 2-3 pages (sections, title/header tags and properties that notes "
    "inherit, multi-line notes, notes whose body mentions another note's ZID -- before and after that note, bare "
    "and as [ZID]); then EVERY note of the directory (quick tier: the first five) is moved once (state restored in between) to a drawn "
    "destination -- another page with notes/sections, a page that is only a header block (+/- blank line), a page "
    "ending inside a section, with 0/1/2 trailing blank lines or without final newline, a missing page matched by "
    "a template pattern, or the source page itself -- with marker none / x / ~.  Oracle on exit 0: source = old "
    "source minus exactly the note's lines; destination = old destination (or template rendering) plus one "
    "contiguous block that is the note (requested kind, same ZID, same continuation lines, first line = prefix + "
    "body with the inherited tags/properties made explicit); recompiling: same set of ZIDs, every other note "
    "unchanged in every field but the line number, moved note's tags and properties are supersets of the old "
    "ones, its old body words survive in order; both pages error-free.  Non-trivial = multi-line note, or ZID "
    "mentioned elsewhere, or inherited metadata, or destination without trailing blank line.  (sequence) up to four "
    "moves in a row on one working copy without reindexing in between (the indexed line numbers go stale), same "
    "oracle after each; distinct by SHA-1 of "
    "(directory, note, destination, marker)."
)
ASSUMPTIONS = [
    "'successful' = exit code 0; a refused move is only required to leave both files untouched (reported as a note)",
    "every note has a ZID and the index is current (`db create` was just run)",
]

DEST_KINDS = ["other", "other", "header+blank", "header-only", "ends-in-section", "trail0", "trail1", "trail2",
              "no-final-newline", "missing+template", "same"]
_TEMPLATE = "# Template for done logs.\n\n## Done {{ name }}\n\n"


@st.composite
def _case(draw):
    d = draw(P.directory(2, 3, rich=True, max_headers=3, all_zids=True))
    # plant mentions of other notes' ZIDs
    items = [(rel, it) for rel, pg in d.items() for it in P.iter_items(pg)]
    for _ in range(draw(st.integers(0, 3)) if len(items) >= 2 else 0):
        (r1, a), (r2, b) = draw(st.sampled_from(items)), draw(st.sampled_from(items))
        if a is b:
            continue
        form = draw(st.sampled_from(["{z}", "[{z}]", "({z})", "see {z} there"]))
        wl = [l for l in a["lines"] if "words" in l]
        if not wl:
            continue
        ln = draw(st.sampled_from(wl))
        ln["words"].append(W(form.format(z=b["zid"]), *([("links", "zid:" + b["zid"])] if form == "[{z}]" else [])))
    link_named_like_tag = []
    # a link / URL fragment whose id equals the NAME of a tag the note inherits ([#area], [@ctx]):
    # it is not that tag, so the inherited tag must still be made explicit
    for rel, pg in d.items():
        inherited = [(m[0], m[1]) for w in pg["title"] for m in w["m"] if m[0] in ("areas", "contexts")]
        for sec in pg["secs"]:
            inherited += [(m[0], m[1]) for w in sec["header"] for m in w["m"] if m[0] in ("areas", "contexts")]
        its = list(P.iter_items(pg))
        if inherited and its and draw(st.booleans()):
            kind_, name = draw(st.sampled_from(inherited))
            it = draw(st.sampled_from(its))
            wl = [l for l in it["lines"] if "words" in l]
            if not wl:
                continue
            ln = draw(st.sampled_from(wl))
            if name.replace("_", "a").isalnum() and not re.fullmatch(r"P\d|o|x|\d+", name):
                # mostly the link whose text contains the tag's written form ("[#foo]" for an inherited #foo)
                same_sym = W(f"[#{name}]", ("links", "global:" + name)) if kind_ == "areas" else W(f"[@{name}]", ("links", "ref:" + name))
                other_sym = W(f"[@{name}]", ("links", "ref:" + name)) if kind_ == "areas" else W(f"[#{name}]", ("links", "global:" + name))
                ln["words"].append(same_sym if draw(st.integers(0, 3)) else other_sym)
                link_named_like_tag.append(it["zid"])
    moves = []
    for rel, it in items:
        moves.append({"zid": it["zid"], "dest": draw(st.sampled_from(DEST_KINDS)),
                      "marker": draw(st.sampled_from([None, None, "x", "~"])),
                      "other": draw(st.integers(0, 5))})
    # moves *within* the page: the note leaves its section (and what it inherited from that section's
    # headers) for the end of the page.  Planted for notes that sit below a section header and are
    # not in the last block of their page; put first so that the quick tier's cap on moves keeps them.
    planted = []
    for rel, pg in d.items():
        in_secs = []

        def walk(sec):
            for bl in sec["blocks"]:
                in_secs.extend(it for it in bl["items"] if "lines" in it)
            for ch in sec["children"]:
                walk(ch)
        for sec in pg["secs"]:
            walk(sec)
        for it in in_secs[:-1]:
            if draw(st.integers(0, 2)) == 0:
                planted.append({"zid": it["zid"], "dest": "same", "marker": draw(st.sampled_from([None, None, "x", "~"])),
                                "other": 0})
    front = [m for m in moves if m["zid"] in link_named_like_tag][:1]
    moves = planted[:2] + front + [m for m in moves if m not in front]
    return {"dir": d, "today": "2024-06-15", "moves": moves}


@st.composite
def _seq_case(draw):
    """Directories for move sequences: later notes of a page mention the ZIDs of earlier ones."""
    d = draw(P.directory(2, 3, rich=draw(st.booleans()), max_headers=1, all_zids=True))
    items = [(rel, it) for rel, pg in d.items() for it in P.iter_items(pg)]
    for rel, pg in d.items():
        its = list(P.iter_items(pg))
        for i, it in enumerate(its):
            if i and draw(st.booleans()):
                target = its[i - draw(st.integers(1, min(i, 2)))]
                form = draw(st.sampled_from(["{z}", "[{z}]", "after {z} is done", "({z})"]))
                wl = [l for l in it["lines"] if "words" in l]
                if not wl:
                    continue
                ln = draw(st.sampled_from(wl))
                ln["words"].append(W(form.format(z=target["zid"]), *([("links", "zid:" + target["zid"])] if form == "[{z}]" else [])))
    moves = [{"zid": it["zid"], "dest": draw(st.sampled_from(["other", "other", "same", "missing+template"])),
              "marker": draw(st.sampled_from([None, "x", "~"])), "other": draw(st.integers(0, 5))}
             for rel, it in items]
    # move notes of one page top-down, so that lines above later notes disappear
    return {"dir": d, "today": "2024-06-15", "moves": moves}


def _dest(kind, case_dir, src_rel, other_idx):
    """-> (relative path, initial text or None when it must be created from the template)"""
    if kind == "same":
        return src_rel, "SAME"
    if kind == "other":
        others = [r for r in sorted(case_dir) if r != src_rel]
        return (others[other_idx % len(others)], "EXISTING") if others else (src_rel, "SAME")
    if kind == "missing+template":
        return "done_new.zo", None
    texts = {
        "header+blank": "# D\n\n",
        "header-only": "# D\n",
        "ends-in-section": "# D\n\n- 240101#d1 first\n\n" + P.MARK[1] + " Sec\n",
        "trail0": "# D\n\n- 240101#d1 first\n",
        "trail1": "# D\n\n- 240101#d1 first\n\n",
        "trail2": "# D\n\n- 240101#d1 first\n\n\n",
        "no-final-newline": "# D\n\n" + P.MARK[1] + " Sec",  # (a header may end the file without newline)
    }
    return "dest_" + kind.replace("+", "_") + ".zo", texts[kind]


def _compile_all(zdir, rels):
    out = {}
    for rel in rels:
        he, rows = dbdump.flatten_compiled(zdir, rel)
        out[rel] = (he, rows)
    return out


def check(case, rec: Rec, only=None) -> None:
    """only: restrict the oracle to these clause names (used by C12's `moved` part)."""
    files = {}
    for rel, pg in case["dir"].items():
        files[rel] = P.render(pg, case["today"])[0]
        if any(P.independent_parse(files[rel])[:2]):
            raise InvalidCase("page does not parse cleanly")
    nontriv = 0
    with env.sandbox("vz-c10-") as box, env.frozen(case["today"]):
        base = box / "base"
        base.mkdir()
        env.write_files(base, files)
        (base / "tmpl").mkdir()
        (base / "tmpl" / "done.zot").write_text(_TEMPLATE)
        cfg = env.write_config(box / "cfg.yml", template_pattern_map={r"^done_(?P<name>\w+)\.zo$": "tmpl/done.zot"})
        r = env.zorg(base, "db", "create", config=cfg)
        if r.code != 0:
            raise InvalidCase(f"db create failed: {r.out[-200:]}")
        rows = dbdump.dump(base)["notes"]
        by_zid = {n["zid"]: n for n in rows}
        all_text = "\n".join((base / rel).read_text() for rel in files)
        for mi, mv in enumerate(case["moves"][:case.get("max_moves", 10 ** 6)]):
            one = {"dir": case["dir"], "today": case["today"], "moves": [mv]}
            note = by_zid.get(mv["zid"])
            if note is None:
                raise InvalidCase("planted ZID not indexed")
            src_rel = note["page"]
            dest_rel, dest_init = _dest(mv["dest"], case["dir"], src_rel, mv["other"])
            zdir = box / f"m{mi}"
            shutil.copytree(base, zdir)
            try:
                if dest_init not in (None, "SAME", "EXISTING"):
                    (zdir / dest_rel).write_text(dest_init)
                _one_move(zdir, cfg, note, rows, src_rel, dest_rel, dest_init, mv, rec, one, files, only=only)
            except (KeyError, IndexError) as e:
                if only is None:
                    raise
                rec.label("restricted-oracle:aborted-after-foreign-clause")
            finally:
                env.fresh_process()
                shutil.rmtree(zdir, ignore_errors=True)
            mentioned = all_text.count(mv["zid"]) > 1
            inherits = _inherits(case["dir"], note)
            if "\n" in note["body"] or mentioned or inherits or mv["dest"] in ("trail0", "no-final-newline", "header-only"):
                nontriv += 1
            if mentioned:
                rec.label("zid-mentioned-elsewhere")
            if inherits:
                rec.label("inherited-metadata")
            if "\n" in note["body"]:
                rec.label("multi-line")
            rec.label("dest:" + mv["dest"])
            if mv["marker"]:
                rec.label("marker")
            rec.info["moves"] = rec.info.get("moves", 0) + 1
        if only is not None:
            rec.nontrivial = nontriv >= 1
            return
        # refusals: an unknown ZID, and a missing destination no template pattern matches -- the
        # command must not report success and must not touch any file
        zdir = box / "refuse"
        shutil.copytree(base, zdir)
        before = env.read_tree(zdir)
        some = rows[0]["zid"] if rows else None
        for args in (["note", "move", "991231#zy", sorted(files)[0]],
                     ["note", "move", some, "nowhere/none.zo"] if some else None):
            if args is None:
                continue
            with rec.sut("note-move-refused"):
                r = env.zorg(zdir, *args, config=cfg)
            if r.code == 0:
                raise Violation("impossible-move-reports-success", f"`zorg {' '.join(args)}` exited 0",
                                case={"dir": case["dir"], "today": case["today"], "moves": []})
            if env.read_tree(zdir) != before:
                # (the statement only speaks about successful moves: recorded, not a violation)
                rec.label("note:refused-move-changed-files")
                before = env.read_tree(zdir)
        shutil.rmtree(zdir, ignore_errors=True)
        rec.label("refusals")
    rec.nontrivial = nontriv >= 1


def _inherits(case_dir, note) -> bool:
    own = note["body"]
    # a tag counts as written on the note only as a word of its own (modulo wrapping punctuation)
    own_words = {w.rstrip("),.?!;:").lstrip("(") for w in own.split()}
    for fld, sym in (("areas", "#"), ("contexts", "@"), ("people", "%"), ("projects", "+")):
        for t in note[fld]:
            if sym + t not in own_words:
                return True
    return any((k + "::") not in own for k in note["props"])


def _one_move(zdir, cfg, note, rows, src_rel, dest_rel, dest_init, mv, rec, one, files, only=None):
    def fail(clause, detail, case=None):
        if only is None or clause.split(":")[0] in only:
            raise Violation(clause, detail, case=case)
        rec.label("restricted-oracle:foreign-clause-skipped")

    zid = note["zid"]
    bw = note["body"].split()
    while bw and (re.fullmatch(r"\d{6}", bw[0]) or bw[0] == zid):
        bw.pop(0)
    if bw and bw[0].endswith("::") and _inherits(None, note) and "move-headline-property-note" in rec.open_keys:
        # input class of a known finding: the inherited metadata is inserted right behind the ZID, in
        # front of the headline's "key::", which then is no property any more
        rec.info["moves_excluded_by_known_finding"] = rec.info.get("moves_excluded_by_known_finding", 0) + 1
        return
    src_before = (zdir / src_rel).read_text()
    dest_before = (zdir / dest_rel).read_text() if (zdir / dest_rel).exists() else None
    rels = sorted(set(files) | ({dest_rel} if dest_before is not None else set()))
    compiled_before = _compile_all(zdir, rels)
    if any(he for he, _ in compiled_before.values()):
        raise InvalidCase("a page is invalid before the move")
    args = ["note", "move", zid, dest_rel] + ([mv["marker"]] if mv["marker"] else [])
    with rec.sut("note-move"):
        r = env.zorg(zdir, *args, config=cfg)
    src_after = (zdir / src_rel).read_text()
    dest_after = (zdir / dest_rel).read_text() if (zdir / dest_rel).exists() else None
    if r.code != 0:
        if src_after != src_before or (dest_before is not None and dest_after != dest_before):
            rec.label("note:refused-move-changed-files")
        rec.label("refused")
        return
    n_lines = len(note["body"].split("\n"))
    sl = src_before.split("\n")
    own = re.compile(r"^[-ox~<>] +(P[0-9] +)?([0-9]{6} +)?" + re.escape(zid) + r"( |$)")
    starts = [i for i, ln in enumerate(sl) if own.match(ln)]
    if len(starts) != 1:
        raise InvalidCase("note not found exactly once in its source page")
    i0 = starts[0]  # (the indexed line number may be stale after earlier moves)
    item_lines = sl[i0:i0 + n_lines]
    what = f"move {zid} ({src_rel}:{note['line']}, {n_lines} line(s)) -> {dest_rel} marker={mv['marker']}"
    if dest_before is None:
        # created from the template
        dest_before = "# Done new\n"
        if not dest_after.startswith("# Done new\n"):
            fail("template-not-used", f"{what}: new page starts with {dest_after[:60]!r}", case=one)
    if dest_rel == src_rel:
        expected_src = None
    else:
        expected_src = "\n".join(sl[:i0] + sl[i0 + n_lines:])
        if src_after != expected_src:
            fail("source-not-minus-note",
                            f"{what}\n--- source before\n{src_before}\n--- source after\n{src_after}", case=one)
    # destination: old lines + one contiguous block
    dl_before = (dest_before if dest_rel != src_rel else "\n".join(sl[:i0] + sl[i0 + n_lines:])).split("\n")
    dl_after = dest_after.split("\n")
    p = 0
    while p < len(dl_before) and p < len(dl_after) and dl_before[p] == dl_after[p]:
        p += 1
    q = 0
    while q < len(dl_before) - p and q < len(dl_after) - p and dl_before[-1 - q] == dl_after[-1 - q]:
        q += 1
    block = dl_after[p:len(dl_after) - q]
    if len(dl_before) - p - q > 0:
        lost = dl_before[p:len(dl_before) - q]
        if [x for x in lost if x.strip()]:
            fail("destination-lines-lost",
                            f"{what}: destination lines {lost!r} were replaced by {block!r}\n--- destination before\n"
                            f"{chr(10).join(dl_before)}\n--- after\n{dest_after}", case=one)
    # be tolerant about which of two equal neighbouring lines "moved": re-anchor on the ZID line
    zl = [i for i, x in enumerate(dl_after) if f" {zid} " in x + " " and x[:1] in "-ox~<>"]
    if len(block) < n_lines:
        fail("note-not-added", f"{what}: added block {block!r}, note has {n_lines} lines\n{dest_after}", case=one)
    kind_char = mv["marker"] or P_KIND_CHAR[note["kind"]]
    blk = [x for x in block]
    # the block may carry one blank line (the replaced separator)
    core = [x for x in blk if x.strip() != ""]
    if len(core) != n_lines:
        fail("added-block-shape", f"{what}: added lines {blk!r}", case=one)
    if not core[0].startswith(kind_char + " "):
        fail("moved-note-kind", f"{what}: first added line {core[0]!r}, requested kind {kind_char!r}", case=one)
    if core[1:] != item_lines[1:]:
        fail("continuation-lines-changed", f"{what}: {core[1:]!r} != {item_lines[1:]!r}", case=one)
    # the emitted text on its own (under a page header) is one valid item with the note's ZID
    (zdir / "zz_alone.zo").write_text("# h\n\n" + "\n".join(core) + "\n")
    he_alone, rows_alone = _compile_all(zdir, ["zz_alone.zo"])["zz_alone.zo"]
    (zdir / "zz_alone.zo").unlink()
    if he_alone or len(rows_alone) != 1 or rows_alone[0]["zid"] != zid:
        fail("moved-text-not-one-valid-item", f"{what}: the added lines {core!r} on their own compile to "
             f"{len(rows_alone)} note(s), has_errors={he_alone}", case=one)
    # recompile everything
    rels_after = sorted(set(files) | {dest_rel})
    compiled_after = _compile_all(zdir, rels_after)
    for rel, (he, _) in compiled_after.items():
        if he and not compiled_before.get(rel, (False, None))[0]:
            fail("page-broken-after-move", f"{what}: {rel} has syntax errors now\n{(zdir / rel).read_text()}",
                            case=one)
    before_notes = {n["zid"]: n for rel in compiled_before for n in compiled_before[rel][1]}
    after_notes = {}
    for rel in compiled_after:
        for n in compiled_after[rel][1]:
            if n["zid"] in after_notes:
                fail("duplicate-zid-after-move", f"{what}: {n['zid']} occurs twice", case=one)
            after_notes[n["zid"]] = n
    if set(before_notes) != set(after_notes):
        fail("note-set-changed", f"{what}: lost {sorted(set(before_notes) - set(after_notes))}, "
                        f"new {sorted(set(after_notes) - set(before_notes))}", case=one)
    for z, b in before_notes.items():
        a = after_notes[z]
        if z == zid:
            continue
        for f in ("page", "section", "kind", "priority", "body", "create", "modify", "areas", "contexts", "people",
                  "projects", "links", "props"):
            if a[f] != b[f]:
                fail("other-note-changed:" + f, f"{what}: note {z}: {f} {b[f]!r} -> {a[f]!r}", case=one)
    b, a = before_notes[zid], after_notes[zid]
    if a["page"] != dest_rel:
        fail("moved-note-page", f"{what}: note now on {a['page']}", case=one)
    want_kind = {"x": "CLOSED_TODO", "~": "CANCELED_TODO"}.get(mv["marker"], b["kind"])
    if a["kind"] != want_kind:
        fail("moved-note-kind", f"{what}: kind {a['kind']}, wanted {want_kind}", case=one)
    for f in ("areas", "contexts", "people", "projects"):
        if not set(b[f]) <= set(a[f]):
            fail("moved-note-lost-tag", f"{what}: {f} {b[f]} -> {a[f]}", case=one)
    for k, v in b["props"].items():
        if a["props"].get(k) != v:
            fail("moved-note-lost-property", f"{what}: property {k}={v!r} -> {a['props'].get(k)!r}; "
                            f"moved text {core[0]!r}", case=one)
    if a["create"] != b["create"] or a["modify"] != b["modify"]:
        fail("moved-note-dates", f"{what}: dates {b['create']}/{b['modify']} -> {a['create']}/{a['modify']}",
                        case=one)
    if b["kind"] == want_kind and b["kind"] not in ("BASIC", "CLOSED_TODO", "CANCELED_TODO") and a["priority"] != b["priority"]:
        fail("moved-note-priority", f"{what}: {b['priority']} -> {a['priority']}", case=one)
    bw, aw = b["body"].split(), a["body"].split()
    it = iter(aw)
    if not all(w in it for w in bw):
        fail("moved-note-body", f"{what}: body {b['body']!r} -> {a['body']!r}", case=one)
    if a["body"].split("\n")[1:] != b["body"].split("\n")[1:]:
        fail("moved-note-body", f"{what}: continuation lines differ", case=one)


P_KIND_CHAR = {v: k for k, v in P.KIND_NAME.items()}


def check_sequence(case, rec: Rec) -> None:
    """Several moves in a row on one working copy, no reindex in between (the index's line numbers
    go stale: `note move` itself never reindexes)."""
    files = {}
    for rel, pg in case["dir"].items():
        files[rel] = P.render(pg, case["today"])[0]
        if any(P.independent_parse(files[rel])[:2]):
            raise InvalidCase("page does not parse cleanly")
    with env.sandbox("vz-c10s-") as box, env.frozen(case["today"]):
        zdir = box / "org"
        zdir.mkdir()
        env.write_files(zdir, files)
        (zdir / "tmpl").mkdir()
        (zdir / "tmpl" / "done.zot").write_text(_TEMPLATE)
        cfg = env.write_config(box / "cfg.yml", template_pattern_map={r"^done_(?P<name>\w+)\.zo$": "tmpl/done.zot"})
        r = env.zorg(zdir, "db", "create", config=cfg)
        if r.code != 0:
            raise InvalidCase(f"db create failed: {r.out[-200:]}")
        rows = dbdump.dump(zdir)["notes"]
        by_zid = {n["zid"]: n for n in rows}
        done = 0
        for mi, mv in enumerate(case["moves"][:4]):
            note = dict(by_zid[mv["zid"]])
            # where the note lives now (it may have been moved already)
            cur = [rel for rel in sorted(env.read_tree(zdir)) if rel.endswith(".zo") and
                   re.search(r"(?m)^[-ox~<>] +(P[0-9] +)?([0-9]{6} +)?" + re.escape(mv["zid"]) + r"( |$)", (zdir / rel).read_text())]
            if len(cur) != 1:
                raise Violation("note-not-exactly-once", f"before move {mi}: {mv['zid']} found in {cur}",
                                case=dict(case, moves=case["moves"][:mi + 1]))
            if cur[0] != note["page"]:
                continue  # already moved away: the index no longer knows where it is (caller precondition)
            kind = mv["dest"] if mv["dest"] in ("other", "same", "missing+template") else "other"
            dest_rel, dest_init = _dest(kind, case["dir"], note["page"], mv["other"])
            all_files = {rel: t for rel, t in env.read_tree(zdir).items() if rel.endswith(".zo")}
            one = dict(case, moves=case["moves"][:mi + 1])
            _one_move(zdir, cfg, note, rows, note["page"], dest_rel, dest_init, mv, rec, one, all_files)
            done += 1
        rec.info["sequence_moves"] = done
    rec.label("sequence")
    rec.nontrivial = done >= 2


def sample_view(case):
    return "\n".join(f"--- {rel}\n{P.render(pg, case['today'])[0]}" for rel, pg in case["dir"].items()) + \
        "\nmoves: " + "; ".join(f"{m['zid']} -> {m['dest']} [{m['marker']}]" for m in case["moves"])


def parts(tier):
    quick = tier == "quick"
    move_case = (lambda: _case().map(lambda c: dict(c, max_moves=5))) if quick else _case
    return [HypPart(name="move", check=check, strategy=move_case,
                    examples=6 if quick else 400, seconds=22 if quick else 600),
            HypPart(name="sequence", check=check_sequence, strategy=_seq_case,
                    examples=6 if quick else 400, seconds=20 if quick else 500)]
