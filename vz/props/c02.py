"""C02 -- notes inherit metadata from the page title and enclosing sections only."""

from __future__ import annotations

import os

from hypothesis import strategies as st

from .. import env
from ..driver import EnumPart, HypPart, InvalidCase, Rec, Violation
from ..model import page as P
from .c01 import compile_text

ID = "C02"
LEVEL = "exploration"
RULE = (
    "(skeletons) every legal header-level sequence (first in {1,2}, next <= previous+1) up to N headers is "
    "enumerated [exhaustive in the skeleton dimension; N = 5 quick / 7 thorough]; for each, K pages (3 quick / 8 "
    "thorough) are drawn by Hypothesis: title line, later head lines, every section header, in-block comments "
    "and every item independently get tags of each kind (unique names, so a leak names its source), all-digit "
    "tags, links of every kind, simple / inline / bullet / quoted properties over a deliberately shared key pool "
    "(k, due, p: 'innermost wins'), and long dates; items with and without own ZID/date.  (page) the same check on "
    "pages with random skeletons of up to 8 headers.  Oracle: the reference scoping model (title line + enclosing "
    "headers + the note itself; properties header block + H1..H4 + note, innermost wins; date = own, else nearest "
    "enclosing header with one, else page, else today) vs walk_zorg_page for areas, contexts, people, projects, "
    "links, properties and creation date of every note.  Non-trivial = skeleton with >= 2 headers of which at "
    "least one carries metadata; distinct by SHA-1 of the case."
)
ASSUMPTIONS = [
    "tags inside quoted words, all-digit link targets and date-valued properties on title/header lines are not "
    "generated (the statement is silent on them)",
    "bullet-style properties only on trailing L1 bullets of a note (mixed-level bullet properties are outside the model)",
]
EXPLANATION = "the skeleton space up to N headers is enumerated completely; decorations are sampled"

FIELDS = ["areas", "contexts", "people", "projects", "links", "props", "create"]


def check_page(case, rec: Rec) -> None:
    text, exp, stats = P.render(case["page"], case["today"])
    lex_errs, par_errs, _ = P.independent_parse(text)
    if lex_errs or par_errs:
        raise InvalidCase(f"generated page does not parse cleanly: {(lex_errs + par_errs)[:2]}\n{text}")
    has_errors, got = compile_text(text, case["today"], rec)
    if has_errors:
        raise Violation("has_errors", f"error-free page flagged has_errors\n{text}")
    if len(got) != len(exp):
        raise Violation("note-count", f"{len(got)} notes compiled, {len(exp)} items written\n{text}")
    for i, (g, e) in enumerate(zip(got, exp)):
        for f in FIELDS:
            if g[f] != e[f]:
                if f == "props":
                    extra = {k: v for k, v in g[f].items() if e[f].get(k) != v}
                    missing = {k: v for k, v in e[f].items() if g[f].get(k) != v}
                else:
                    extra = sorted(set(g[f]) - set(e[f])) if isinstance(g[f], list) else g[f]
                    missing = sorted(set(e[f]) - set(g[f])) if isinstance(g[f], list) else e[f]
                kind = "leak" if extra and not missing else "lost" if missing and not extra else "wrong"
                raise Violation(f"{f}:{kind}",
                                f"note {i} (line {e['line']}, sections {e['section']}): {f} compiled {g[f]!r}, "
                                f"model {e[f]!r}; unexpected {extra!r}, missing {missing!r}\n--- page\n{text}")
    nsec = stats["headers"]
    deco = _decorated_headers(case["page"])
    if nsec >= 2:
        rec.label("headers>=2")
    if deco:
        rec.label("decorated-header")
    if stats["h34"]:
        rec.label("h34")
    if not case["page"]["title"]:
        rec.label("bare-#-title-line")
    rec.info["pages"] = 1
    rec.info["notes"] = len(exp)
    rec.nontrivial = nsec >= 2 and deco >= 1


def _decorated_headers(pg) -> int:
    n = 0

    def rec_(sec):
        nonlocal n
        if any(w["m"] for w in sec["header"]):
            n += 1
        for c in sec["children"]:
            rec_(c)

    for s in pg["secs"]:
        rec_(s)
    return n


def check_skeleton(case, rec: Rec) -> None:
    """One skeleton, K Hypothesis-drawn decorations."""
    import hypothesis
    from hypothesis import HealthCheck, Phase, given, settings

    levels = case["levels"]
    seed = int(os.environ.get("VERIF_SEED", "1") or "1")
    fails = []
    count = {"n": 0, "nt": 0}

    @hypothesis.seed(seed * 100003 + hash(tuple(levels)) % 100000)
    @settings(max_examples=case["k"], deadline=None, database=None, phases=[Phase.generate],
              suppress_health_check=list(HealthCheck))
    @given(P.page(rich=False, shared_keys=True, levels=levels), st.sampled_from(["2024-06-15", "2000-01-03"]))
    def inner(pg, today):
        if fails:
            return
        r = Rec()
        pc = {"page": pg, "today": today}
        try:
            check_page(pc, r)
        except Violation as v:
            fails.append(Violation(v.clause, v.detail, case=pc, part="page"))
            return
        count["n"] += 1
        count["nt"] += 1 if r.nontrivial else 0

    inner()
    if fails:
        raise fails[0]
    rec.info["pages"] = count["n"]
    rec.nontrivial = len(levels) >= 2 and count["nt"] >= 1
    rec.label(f"len{len(levels)}")


@st.composite
def _page_case(draw):
    return {"page": draw(P.page(rich=draw(st.booleans()), shared_keys=True, max_headers=8)),
            "today": draw(st.sampled_from(["2024-06-15", "2000-01-03"]))}


def sample_view(case):
    if "levels" in case:
        return f"skeleton {case['levels']} x {case['k']} decorated pages"
    return P.render(case["page"], case["today"])[0]


def parts(tier):
    from ..engine import load_findings

    P.set_open({f["key"] for f in load_findings(ID) + load_findings("C01") + load_findings("C08")
                if f.get("status") == "known"})
    quick = tier == "quick"
    n, k = (5, 3) if quick else (7, 8)
    return [
        EnumPart(name="skeletons", check=check_skeleton,
                 items=lambda: [{"levels": s, "k": k} for s in P.skeletons(n)], seconds=60 if quick else 600),
        HypPart(name="page", check=check_page, strategy=_page_case,
                examples=25 if quick else 800, seconds=25 if quick else 400),
    ]
