"""C13 -- re-running an interrupted index operation converges."""

from __future__ import annotations

import re
import shutil
from pathlib import Path

from hypothesis import strategies as st

from .. import env
from ..driver import EnumPart, Excluded, HypPart, InvalidCase, Rec, Violation
from ..model import dbdump, edits
from ..model import page as P
from ..model.effects import Crash, Interposer
from .c05 import agreement
from .c06 import day_str

ID = "C13"
LEVEL = "fault_enumeration"
RULE = (
    "Hypothesis draws scenarios: a directory of 2-3 small pages in one of three flavours -- fresh (`db create` "
    "with notes lacking ZIDs), edited after indexing (edits and new notes on a later day, then `db reindex`: "
    "stamps + new ZIDs), mixed with page add / delete / rename.  The command is first run un-faulted under an "
    "effect interposer that records the ordered external effects on the notes directory (write_text, "
    "open-for-write = truncation, flush of the written data, unlink, mkdir, touch, rename, replace, database commit).  "
    "Then for EVERY effect index i the pre-state is restored and the command is run with a crash injected "
    "immediately before effect i (thorough tier: also a torn variant of every file write: first half of the data, "
    "then the crash), followed by one un-faulted rerun of the same command.  Oracle after the rerun: exit 0; all "
    "pages error-free and index == recompiled files field by field; files equal those of the uninterrupted run "
    "modulo the identity of freshly allocated ZIDs; no ZID on two notes; no original line lost (boundaries inside "
    "the window of an open known finding are not skipped: they are checked with that finding's one symptom factored "
    "out).  evaluations = "
    "crash runs (about one boundary in nine is repeated in a real process killed with os._exit(137) and rerun in a "
    "real process); non-trivial = distinct (scenario, boundary) whose crash left a state different from both the "
    "initial and the final one."
)
ASSUMPTIONS = [
    "a kill between two effects is modelled in-process by a BaseException raised just before the later effect; "
    "SQLite's rollback of an uncommitted transaction stands for hot-journal recovery",
    "effects on files outside the notes directory (temporary template copies) are not crash points",
]

_ZID = re.compile(r"\d{6}#[0-9A-Za-z]{2,3}")


@st.composite
def _scenario(draw):
    flavour = draw(st.sampled_from(["fresh", "edited", "mixed"]))
    d = draw(P.directory(2, 3, rich=False, max_headers=1, all_zids=(flavour != "fresh"), canonical_spacing=True))
    steps = []
    if flavour != "fresh":
        n = draw(st.integers(2, 6))
        for _ in range(n):
            sel = {"p": draw(st.integers(0, 50)), "n": draw(st.integers(0, 50))}
            k = draw(st.integers(0, 9 if flavour == "mixed" else 6))
            if k < 3:
                steps.append({"op": "append_word", **sel, "w": draw(st.sampled_from(edits.WORDS))})
            elif k < 5:
                steps.append({"op": "add_note", **sel, "zid": False, "kind": draw(st.sampled_from(P.KINDS)),
                              "w": draw(st.sampled_from(edits.WORDS))})
            elif k == 5:
                steps.append({"op": "kind", **sel, "kind": draw(st.sampled_from(P.KINDS))})
            elif k == 6:
                steps.append({"op": "header_tag", **sel, "w": "#htag"})
            elif k == 7:
                steps.append({"op": "add_page", "sub": draw(st.booleans())})
            elif k == 8:
                steps.append({"op": "del_page", **sel})
            else:
                steps.append({"op": "rename_page", **sel, "sub": False})
    return {"flavour": flavour, "dir": d, "steps": steps}


def prepare(case, box: Path, rec) -> tuple:
    """-> (prepared directory, command args, day)"""
    files = {}
    for rel, pg in case["dir"].items():
        files[rel] = P.render(pg, day_str(0))[0]
        if any(P.independent_parse(files[rel])[:2]):
            raise InvalidCase("page does not parse cleanly")
    base = box / "base"
    base.mkdir()
    env.write_files(base, files)
    if case["flavour"] == "fresh":
        return base, ["db", "create"], 0
    with env.frozen(day_str(0)):
        r = env.zorg(base, "db", "create")
    if r.code != 0:
        raise InvalidCase("db create failed")
    wd = edits.Workdir(base)
    with env.frozen(day_str(3)):
        for st_ in case["steps"]:
            wd.apply(st_, day_str(3))
    return base, ["db", "reindex"], 3


def run_cmd(zdir, args, day, ip=None):
    with env.frozen(day_str(day)):
        if ip is None:
            return env.zorg(zdir, *args).code
        with ip.active():
            try:
                return env.zorg(zdir, *args).code
            except Crash:
                return "crashed"
            finally:
                env.fresh_process()


def snapshot(zdir):
    out = {}
    for p in sorted(zdir.rglob("*")):
        if p.is_file() and "-journal" not in p.name:
            rel = str(p.relative_to(zdir))
            out[rel] = p.read_bytes()
    return out


def canon_files(tree: dict, known_zids: set) -> dict:
    """Rename ZIDs that did not exist before the command canonically, in file/line order."""
    mapping = {}

    def sub(m):
        z = m.group(0)
        if z in known_zids:
            return z
        if z not in mapping:
            mapping[z] = f"NEWZID{len(mapping) + 1}"
        return mapping[z]

    return {rel: _ZID.sub(sub, t) for rel, t in sorted(tree.items())}


_STAMP = re.compile(r"(?m)^([-ox~<>]( P\d)? )\d{6} (\d{6}#)")


def _no_stamps(tree: dict) -> dict:
    return {rel: _STAMP.sub(r"\1\3", t) for rel, t in tree.items()}


def crash_once(base: Path, box: Path, args, day, i, torn, reference, known_zids, orig_lines, rec, tag,
               real=False, label_hint=None, ignore_stamps=False):
    """One crash point.  Returns (label, state_was_intermediate).  real=True: the command runs in a
    real process that is killed with os._exit(137) at the boundary, and the rerun is a real process too."""
    zdir = box / f"run-{tag}"
    shutil.copytree(base, zdir)
    try:
        if real:
            r = env.zorg_subprocess(zdir, *args, day=day_str(day), crash_at=i, torn=torn)
            if r.code != 137:
                return None, False
            label = label_hint
            code = "crashed"
        else:
            ip = Interposer(zdir, crash_at=i, torn=torn)
            code = run_cmd(zdir, args, day, ip)
            label = ip.crashed
        if code != "crashed":
            if label is None:
                return None, False  # fewer effects this time
            raise InvalidCase("crash did not propagate")
        mid = snapshot(zdir)
        what = ("[real kill -9] " if real else "") + f"`{' '.join(args)}` killed before effect #{i} [{label}]" + (" (torn write)" if torn else "")
        with rec.sut("rerun"):
            code2 = env.zorg_subprocess(zdir, *args, day=day_str(day)).code if real else run_cmd(zdir, args, day)
        key = re.sub(r"#\d+", "", label.split(":")[0]) + (":torn" if torn else "")
        if code2 != 0:
            raise Violation(f"rerun-fails:{_kind(label, torn)}", f"{what}: the rerun exited {code2}")
        tree = {rel: t for rel, t in env.read_tree(zdir).items() if rel.endswith(".zo")}
        try:
            rows = agreement(zdir, sorted(tree), what + ", after the rerun")
        except Violation as v:
            raise Violation(f"disagree:{_kind(label, torn)}:{v.clause}", v.detail)
        zs = [n["zid"] for n in rows]
        if len(zs) != len(set(zs)) or None in zs:
            raise Violation(f"zid-shared:{_kind(label, torn)}", f"{what}: ZIDs after the rerun {sorted(map(str, zs))}")
        got = canon_files(tree, known_zids)
        if ignore_stamps:
            # boundary inside the window of known finding 'page-replacement-not-atomic' (its symptom:
            # modify dates are not stamped): everything else is still demanded
            got, reference = _no_stamps(got), _no_stamps(reference)
            orig_lines = [ln for ln in orig_lines if not _STAMP.match(ln)]
        if got != reference:
            diff = [rel for rel in set(got) | set(reference) if got.get(rel) != reference.get(rel)]
            rel = sorted(diff)[0]
            raise Violation(f"differs-from-uninterrupted:{_kind(label, torn)}",
                            f"{what}: {rel} after the rerun\n{tree.get(rel)}\n--- uninterrupted run (new ZIDs renamed)\n"
                            f"{reference.get(rel)}")
        text_all = "\n".join(tree.values())
        for ln in orig_lines:
            if ln not in text_all:
                raise Violation(f"text-lost:{_kind(label, torn)}", f"{what}: original line {ln!r} is gone")
        return label, mid
    finally:
        env.fresh_process()
        shutil.rmtree(zdir, ignore_errors=True)


def _kind(label, torn) -> str:
    """Boundary class used in failure signatures: effect kind + store."""
    kind, _, target = label.partition(":")
    store = ("zo" if target.endswith(".zo") else target.split("/")[-1]) if target else "db"
    return f"{kind}:{store}" + (":torn" if torn else "")


def check_scenario(case, rec: Rec) -> None:
    tier_torn = case.get("torn", False)
    with env.sandbox("vz-c13-") as box:
        base, args, day = prepare(case, box, rec)
        pre = snapshot(base)
        known = set(_ZID.findall("\n".join(t.decode() for rel, t in pre.items() if rel.endswith(".zo"))))
        # uninterrupted reference + effect list
        ref_dir = box / "ref"
        shutil.copytree(base, ref_dir)
        ip = Interposer(ref_dir)
        code = run_cmd(ref_dir, args, day, ip)
        if code != 0:
            raise InvalidCase(f"uninterrupted run exits {code}")
        effects = list(ip.effects)
        ref_tree = {rel: t for rel, t in env.read_tree(ref_dir).items() if rel.endswith(".zo")}
        agreement(ref_dir, sorted(ref_tree), "uninterrupted run")
        reference = canon_files(ref_tree, known)
        final = snapshot(ref_dir)
        shutil.rmtree(ref_dir, ignore_errors=True)
        # lines that must survive: everything but first lines of items that get a ZID / stamp
        orig_lines = []
        for rel, t in pre.items():
            if rel.endswith(".zo"):
                new = ref_tree.get(rel, "").split("\n")
                old = t.decode().split("\n")
                orig_lines += [a for a, b in zip(old, new) if a == b and a.strip()] if len(old) == len(new) else []
        rec.info["effects"] = len(effects)
        for i, label in enumerate(effects):
            variants = [False]
            if tier_torn and label.split(":")[0] in ("write_text", "flush"):
                variants.append(True)
            for torn in variants:
                kcls = _kind(label, torn)
                in_known = known_boundary(effects, i, torn) & rec.open_keys
                if in_known:
                    rec.info["crash_points_in_known_finding_window"] = rec.info.get("crash_points_in_known_finding_window", 0) + 1
                one = dict(case, crash=i, torn=torn, ignore_stamps=bool(in_known))
                try:
                    got_label, mid = crash_once(base, box, args, day, i, torn, reference, known, orig_lines, rec,
                                                f"{i}{'t' if torn else ''}", ignore_stamps=bool(in_known))
                except Violation as v:
                    raise Violation(v.clause, v.detail + f"\n(effects of the uninterrupted run: {effects})", case=one, part="crash")
                rec.sub_evals += 1
                if got_label is not None and mid != pre and mid != final:
                    rec.sub_nontrivial.append(f"{i}:{label}:{torn}")
                rec.label("boundary:" + kcls)
                # a sample of the boundaries again with a REAL process killed by os._exit(137)
                if not torn and (i * 7 + len(effects)) % case.get("real_every", 9) == 0:
                    try:
                        crash_once(base, box, args, day, i, False, reference, known, orig_lines, rec, f"{i}real",
                                   real=True, label_hint=label, ignore_stamps=bool(in_known))
                    except Violation as v:
                        raise Violation("real-kill:" + v.clause, v.detail, case=dict(one, real=True), part="crash")
                    rec.sub_evals += 1
                    rec.label("real-kill")
    rec.label("flavour:" + case["flavour"])
    rec.nontrivial = len(rec.sub_nontrivial) >= 1


def known_boundary(effects: list, i: int, torn: bool) -> set:
    """Keys of the known findings whose input class (scenario, crash point) this boundary falls in."""
    out = set()
    # K1: the old version of a page is deleted with commits of its own; until the page's own commit
    # the index holds a partly deleted page.
    last_remove = max((j for j in range(i) if effects[j].startswith("commit(remove)")), default=None)
    if last_remove is not None and not any(effects[j] == "commit:db" for j in range(last_remove + 1, i)):
        out.add("page-replacement-not-atomic")
    # K2: a page that needs both modify dates and new ZIDs is rewritten twice; its hash is recorded
    # after the first rewrite.
    reps = [j for j, e in enumerate(effects) if e.startswith("replace:") and e.endswith(".zo.tmp")]
    for j in reps:
        later = [k for k in reps if k > j and effects[k] == effects[j]]
        if later and j < i <= later[0]:
            out.add("crash-between-two-write-backs-of-one-page")
    return out


def check_crash(case, rec: Rec) -> None:
    """Replay of a single crash point (used for replay files and witnesses)."""
    with env.sandbox("vz-c13r-") as box:
        base, args, day = prepare(case, box, rec)
        pre = snapshot(base)
        known = set(_ZID.findall("\n".join(t.decode() for rel, t in pre.items() if rel.endswith(".zo"))))
        ref_dir = box / "ref"
        shutil.copytree(base, ref_dir)
        ip = Interposer(ref_dir)
        if run_cmd(ref_dir, args, day, ip) != 0:
            raise InvalidCase("uninterrupted run fails")
        ref_tree = {rel: t for rel, t in env.read_tree(ref_dir).items() if rel.endswith(".zo")}
        reference = canon_files(ref_tree, known)
        orig_lines = []
        for rel, t in pre.items():
            if rel.endswith(".zo"):
                new = ref_tree.get(rel, "").split("\n")
                old = t.decode().split("\n")
                orig_lines += [a for a, b in zip(old, new) if a == b and a.strip()] if len(old) == len(new) else []
        crash_once(base, box, args, day, case["crash"], case.get("torn", False), reference, known, orig_lines, rec, "r",
                   real=case.get("real", False), label_hint="?", ignore_stamps=case.get("ignore_stamps", False))
    rec.nontrivial = True


def sample_view(case):
    return f"{case['flavour']}: pages {sorted(case['dir'])}; edits before the command: " + "; ".join(s["op"] for s in case["steps"]) + \
        "; then every effect boundary of the command is a crash point"


def parts(tier):
    quick = tier == "quick"
    strat = (lambda: _scenario().map(lambda c: dict(c, real_every=23))) if quick else \
        (lambda: _scenario().map(lambda c: dict(c, torn=True, real_every=7)))
    return [HypPart(name="scenarios", check=check_scenario, strategy=strat,
                    examples=2 if quick else 12, seconds=40 if quick else 600),
            EnumPart(name="crash", check=check_crash, items=lambda: [], exhaustive=False)]
