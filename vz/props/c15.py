"""C15 -- a saved-query reference filters like the saved query's WHERE clause."""

from __future__ import annotations

import re

from hypothesis import strategies as st

from .. import env
from ..driver import Excluded, HypPart, InvalidCase, Rec, Violation
from ..gen import index as G
from ..model import eval3
from ..model import page as P
from ..model import query as Q
from .c03 import build_index

ID = "C15"
LEVEL = "exploration"
RULE = (
    "Hypothesis draws an indexed directory (C03 generator), an acyclic set of 1-5 saved query pages "
    "zoq/NAME.zoq whose first line is '# [S ..] W <filter> [O ..] [G ..]' with conjunctions, alternatives (|), "
    "parentheses, negations and references {later-name} (acyclic by construction), and 6 referencing queries "
    "'S note W <atoms> {name} <atoms> O none' (also two references, references inside parentheses and in "
    "alternatives, and references to absent names).  Oracle: expand_saved_queries returns; the ZIDs printed by "
    "swog.execute equal the rows our evaluator makes True for surrounding-filter AND (saved WHERE) with nested "
    "references substituted as sub-expressions (rows with Unknown verdict not compared); the explicitly "
    "parenthesised text gives the same result; an absent name makes expand_saved_queries return None, "
    "swog.execute raise and `zorg query` exit non-zero.  Non-trivial = the referenced clause has a top-level "
    "alternative, or references nest >= 2 deep; distinct by SHA-1 of the case."
)
ASSUMPTIONS = [
    "saved query sets are acyclic (the property's precondition)",
    "saved clauses avoid the input classes of the C04 known findings",
    "every note has a distinct ZID, printed as the first ZID-shaped word of its entry",
]

NAMES = ["s1", "s2", "s3", "work", "Mine"]
# names are free text between the braces: dots, dashes, sub-directories; some extend another name
NAME_POOL = NAMES + ["proj", "proj.alpha", "v1.2", "sub/q", "a-b", "s1.bak", "work.old.2"]
ABSENT = ["missing_q", "missing_q", "proj.nope", "s1.x", "work.zoq", "sub/none"]
_ZID = re.compile(r"\d{6}#[0-9A-Za-z]{2,3}")


@st.composite
def _where_with_refs(draw, later, force_ref=None, max_depth=1):
    o = draw(G.hit_or(0, max_depth))
    refs = []
    if force_ref:
        refs.append(force_ref)
    if later and draw(st.integers(0, 2)) == 0:
        refs.append(draw(st.sampled_from(later)))
    for r in refs:
        target = draw(st.sampled_from(o["ands"]))
        where = draw(st.integers(0, len(target["atoms"])))
        atom = {"t": "ref", "name": r}
        if draw(st.integers(0, 3)) == 0:
            atom = {"t": "sub", "or": {"ands": [{"atoms": [atom]}, {"atoms": [draw(G.hit_atom(2, 2))]}]}}
        target["atoms"].insert(where, atom)
    if len(o["ands"]) >= 2 and draw(st.integers(0, 4)) == 0:
        # every alternative in parentheses of its own: "(a b) | (c)" starts with "(" and ends with ")"
        o = {"ands": [{"atoms": [{"t": "sub", "or": {"ands": [af]}}]} for af in o["ands"]]}
    return o


@st.composite
def _case(draw):
    n = draw(st.integers(1, 5))
    names = NAMES[:n] if draw(st.booleans()) else \
        draw(st.lists(st.sampled_from(NAME_POOL), min_size=n, max_size=n, unique=True))
    saved = {}
    for i, nm in enumerate(names):
        later = names[i + 1:]
        saved[nm] = {"where": draw(_where_with_refs(later)),
                     "form": draw(st.sampled_from(["W", "W-G", "S-W-O-G", "W-O"]))}
    broken = None
    if draw(st.integers(0, 3)) == 0:
        # one saved query references a name that does not exist: every query that reaches it must fail
        broken = draw(st.sampled_from(names))
        saved[broken]["where"]["ands"][0]["atoms"].append({"t": "ref", "name": draw(st.sampled_from(ABSENT))})
    queries = []
    for _ in range(6):
        k = draw(st.integers(0, 9))
        if k == 0:
            queries.append({"where": draw(_where_with_refs([], force_ref=draw(st.sampled_from(ABSENT)))), "absent": True})
        else:
            q = draw(_where_with_refs(names, force_ref=draw(st.sampled_from(names))))
            queries.append({"where": q, "absent": False})
    for qd in queries:
        qd["absent"] = qd["absent"] or _reaches_missing(qd["where"], saved)
    return {"dir": draw(G.directory()), "today": draw(st.sampled_from(G.TODAYS)), "saved": saved, "queries": queries}


def _reaches_missing(o, saved, depth=0) -> bool:
    for n in refs_of(o):
        if n not in saved or (depth < 10 and _reaches_missing(saved[n]["where"], saved, depth + 1)):
            return True
    return False


def render_or(o, paren_refs=None) -> str:
    """Like Q.render_or but knows {ref} atoms; paren_refs = {name: text} substitutes '(text)'."""
    def atom(a):
        if a["t"] == "ref":
            return "{" + a["name"] + "}" if paren_refs is None else "(" + paren_refs[a["name"]] + ")"
        if a["t"] == "sub":
            return "(" + render_or(a["or"], paren_refs) + ")"
        return Q.render_atom(a)
    return " | ".join(" ".join(atom(a) for a in af["atoms"]) for af in o["ands"])


def substitute(o, saved):
    """Replace every ref atom by the referenced WHERE as a sub-expression (recursively)."""
    out = {"ands": []}
    for af in o["ands"]:
        atoms = []
        for a in af["atoms"]:
            if a["t"] == "ref":
                atoms.append({"t": "sub", "or": substitute(saved[a["name"]]["where"], saved)})
            elif a["t"] == "sub":
                atoms.append({"t": "sub", "or": substitute(a["or"], saved)})
            else:
                atoms.append(a)
        out["ands"].append({"atoms": atoms})
    return out


def ref_depth(o, saved, seen=0) -> int:
    d = 0
    for af in o["ands"]:
        for a in af["atoms"]:
            if a["t"] == "ref":
                d = max(d, 1 + ref_depth(saved[a["name"]]["where"], saved))
            elif a["t"] == "sub":
                d = max(d, ref_depth(a["or"], saved))
    return d


def pooling_conflict(o, saved) -> bool:
    """Input class of the known finding 'splice-pools-kinds-or-priorities': after expansion some
    conjunction holds kind (or priority) atoms that come from two different clauses -- the
    surrounding filter and a referenced saved clause written without alternatives (a clause that
    contains '|' is parenthesised and cannot pool)."""

    def flat(af, origin):
        """-> (list of (pool kind, origin)), conflict found below"""
        items, bad = [], False
        for a in af["atoms"]:
            if a["t"] == "kinds":
                items.append(("kinds", origin))
            elif a["t"] == "prio":
                items.append(("prio", origin))
            elif a["t"] == "sub":
                bad = bad or any(group(x, origin + "/sub") for x in a["or"]["ands"])
            elif a["t"] == "ref":
                w = saved[a["name"]]["where"]
                if "|" in _expanded_text(w, saved):
                    bad = bad or any(group(x, origin + "/" + a["name"]) for x in w["ands"])
                else:
                    sub_items, sub_bad = flat(w["ands"][0], origin + "/" + a["name"])
                    items.extend(sub_items)
                    bad = bad or sub_bad
        return items, bad

    def group(af, origin):
        items, bad = flat(af, origin)
        for pool in ("kinds", "prio"):
            if len({o_ for p_, o_ in items if p_ == pool}) >= 2:
                return True
        return bad

    return any(group(af, "q") for af in o["ands"])


def _expanded_text(o, saved) -> str:
    def atom(a):
        if a["t"] == "ref":
            return _expanded_text(saved[a["name"]]["where"], saved)
        if a["t"] == "sub":
            return "(" + _expanded_text(a["or"], saved) + ")"
        return Q.render_atom(a)
    return " | ".join(" ".join(atom(a) for a in af["atoms"]) for af in o["ands"])


def refs_of(o):
    for af in o["ands"]:
        for a in af["atoms"]:
            if a["t"] == "ref":
                yield a["name"]
            elif a["t"] == "sub":
                yield from refs_of(a["or"])


def zoq_line(nm, s) -> str:
    w = render_or(s["where"])
    return {"W": f"# W {w}", "W-G": f"# W {w} G file", "S-W-O-G": f"# S note W {w} O priority modify G file",
            "W-O": f"# W {w} O alpha"}[s["form"]]


def zids_of_output(out: str) -> list:
    zs = []
    for ln in out.split("\n"):
        if not ln or ln.startswith((" ", "#")):
            continue
        m = _ZID.search(ln)
        if m:
            zs.append(m.group(0))
    return zs


def check(case, rec: Rec) -> None:
    from zorg.service import swog
    from zorg.service.swog._saved_queries import expand_saved_queries

    today = tuple(int(x) for x in case["today"].split("-"))
    saved = case["saved"]
    nontriv = 0
    with env.sandbox("vz-c15-") as box, env.frozen(case["today"]):
        zdir = box / "org"
        zdir.mkdir()
        rows = build_index(case, zdir, rec)
        (zdir / "zoq").mkdir()
        for nm, s in saved.items():
            (zdir / "zoq" / f"{nm}.zoq").parent.mkdir(parents=True, exist_ok=True)
            (zdir / "zoq" / f"{nm}.zoq").write_text(zoq_line(nm, s) + "\n# saved query\n\n- old results\n")
        paren_text = {}
        for nm in reversed(list(saved)):
            for ab in ABSENT:
                paren_text.setdefault(ab, "#never")
            paren_text[nm] = render_or(saved[nm]["where"], paren_text)
        ctx = {"today": today, "rows": rows}
        if any("." in nm or "/" in nm for nm in saved):
            rec.label("saved-name-with-dot-or-directory")
        for qd in case["queries"]:
            text = "S note W " + render_or(qd["where"]) + " O none"
            one = {"dir": case["dir"], "today": case["today"], "saved": saved, "queries": [qd]}
            env.fresh_process()
            with rec.sut("expand_saved_queries"):
                expanded = expand_saved_queries(zdir, text)
            if qd["absent"]:
                if expanded is not None:
                    raise Violation("absent-name-ignored", f"{text!r} expanded to {expanded!r}", case=one)
                try:
                    out = swog.execute(zdir, env.db_url(zdir), text)
                except RuntimeError:
                    out = None
                except Exception as e:  # noqa: BLE001
                    raise Violation(f"crash:execute:{type(e).__name__}", str(e)[:300], case=one)
                finally:
                    env.fresh_process()
                if out is not None:
                    raise Violation("absent-name-ignored", f"execute({text!r}) returned {out[:200]!r}", case=one)
                r = env.zorg(zdir, "query", text)
                if r.code == 0:
                    raise Violation("absent-name-ignored", f"`zorg query {text!r}` exited 0: {r.out[:200]!r}", case=one)
                rec.label("absent-name")
                if not set(refs_of(qd["where"])) - set(saved):
                    rec.label("absent-name-nested")
                continue
            if "splice-pools-kinds-or-priorities" in rec.open_keys and pooling_conflict(qd["where"], saved):
                rec.info["queries_excluded_by_known_finding"] = rec.info.get("queries_excluded_by_known_finding", 0) + 1
                continue
            if expanded is None:
                raise Violation("expansion-failed", f"{text!r}: expand_saved_queries returned None", case=one)
            if "{" in expanded or "}" in expanded:
                raise Violation("reference-left-unexpanded", f"{text!r} -> {expanded!r}", case=one)
            full = substitute(qd["where"], saved)
            errs = Q.syntax_errors("W " + render_or(qd["where"], paren_text))
            if errs and not Q.has_tolerated_syntax(full):
                raise InvalidCase(f"query not well-formed: {errs[:1]}")
            must, mustnot = set(), set()
            for r_ in rows:
                v = eval3.ev_or(full, r_, ctx)
                if v is True:
                    must.add(r_["zid"])
                elif v is False:
                    mustnot.add(r_["zid"])
            env.fresh_process()
            with rec.sut("swog.execute"):
                out = swog.execute(zdir, env.db_url(zdir), text)
            env.fresh_process()
            got = zids_of_output(out)
            if len(got) != len(set(got)):
                raise Violation("duplicate-result", f"{text!r}: {got}", case=one)
            got = set(got)
            missing, extra = must - got, got & mustnot
            top_alt = any(len(saved[n]["where"]["ands"]) > 1 for n in refs_of(qd["where"]))
            depth = ref_depth(qd["where"], saved)
            if missing or extra:
                raise Violation(("missing" if missing else "extra") + (":top-level-alternative" if top_alt else "")
                                + (f":depth{min(depth, 3)}"),
                                f"{text!r}\n expanded to {expanded!r}\n saved: "
                                f"{ {n: zoq_line(n, s) for n, s in saved.items()} }\n missing {sorted(missing)}, wrongly "
                                f"returned {sorted(extra)}", case=one)
            # metamorphic: explicit parentheses give the same selection
            text2 = "S note W " + render_or(qd["where"], paren_text) + " O none"
            with rec.sut("swog.execute(parenthesised)"):
                out2 = swog.execute(zdir, env.db_url(zdir), text2)
            env.fresh_process()
            if set(zids_of_output(out2)) != got:
                raise Violation("reference-vs-parenthesised",
                                f"{text!r} selects {sorted(got)} but {text2!r} selects {sorted(zids_of_output(out2))}",
                                case=one)
            if top_alt:
                rec.label("top-level-alternative")
            if depth >= 2:
                rec.label("nested-refs")
            if len(list(refs_of(qd["where"]))) >= 2:
                rec.label("two-refs")
            if top_alt or depth >= 2:
                nontriv += 1
            rec.info["queries"] = rec.info.get("queries", 0) + 1
    rec.nontrivial = nontriv >= 1


REQUIRED_LABELS = {"top-level-alternative": 0.3, "nested-refs": 0.2, "absent-name": 0.2}


def sample_view(case):
    return "saved: " + "; ".join(zoq_line(n, s) for n, s in case["saved"].items()) + "\nqueries:\n" + \
        "\n".join("S note W " + render_or(q["where"]) + " O none" for q in case["queries"])


def parts(tier):
    from ..engine import load_findings

    Q.set_open({f["key"] for f in load_findings("C04") if f.get("status") == "known"})
    quick = tier == "quick"
    return [HypPart(name="refs", check=check, strategy=_case,
                    examples=30 if quick else 700, seconds=55 if quick else 600)]
