"""C01 -- compiling a page yields exactly the notes written in it."""

from __future__ import annotations

from pathlib import Path

from hypothesis import strategies as st

from .. import env
from ..driver import HypPart, InvalidCase, Rec, Violation
from ..model import page as P

ID = "C01"
LEVEL = "exploration"
RULE = (
    "Hypothesis draws abstract pages (title line, 0-3 further header-comment lines, 0-3 top-level blocks, a "
    "random legal H1-H4 skeleton of up to 5 headers with blocks, comments interleaved, 1-3 blank lines, items of "
    "all six kinds with every combination of priority / YYMMDD modify date / ZID (2- and 3-character) / "
    "YYYY-MM-DD create date, irregular gaps after the prefix, 1-7 lines per item: continuation lines, L1-L3 "
    "bullets, bullet properties on L1 or in L2/L3 drawers, headline properties, lines ending in blanks; bodies over the grammar's word forms with prefix look-alikes (o, x, Pn, "
    "dates, times, ZIDs, six digits / YYYY-MM-DD words that are no calendar dates) forced into later positions "
    "and, wherever they cannot be a field of the item, the first), "
    "renders them to text (gated by an independent error-free parse) and compares walk_zorg_page's notes with "
    "the reference compiler: count, order, kind, priority, body, line number, ZID, creation and modification "
    "date; has_errors must be false.  Non-trivial = page with >= 2 items and one of {multi-line item, look-alike "
    "word past position 1, todo with priority+modify+ZID, item inside H3/H4, item without ZID inside a section}; "
    "distinct by SHA-1 of the case."
)
ASSUMPTIONS = [
    "only characters of the lexer's alphabet, LF line endings, file ends with a newline",
    "a first body word that begins with six digits but is not the written modify date is not generated (statement silent)",
    "for a todo written without priority the first body word is not Pn, and after a modify date written without "
    "ZID the next word is not ZID-shaped (the word *is* the field)",
    "clock controlled with freezegun",
]

FIELDS = ["kind", "priority", "body", "line", "zid", "create", "modify"]
_DAYS = ["2024-06-15", "2024-02-29", "2000-01-03", "2031-12-31"]


@st.composite
def _case(draw):
    return {"page": draw(P.page(rich=True, max_headers=5)), "today": draw(st.sampled_from(_DAYS))}


def compile_text(text: str, today: str, rec: Rec, name="p.zo"):
    from zorg.service.compiler import walk_zorg_page

    with env.sandbox("vz-pg-") as box:
        (box / name).write_text(text)
        with env.frozen(today):
            with rec.sut("walk_zorg_page"):
                pg = walk_zorg_page(box, Path(name))
                notes = [P.dump_note(n) for n in pg.notes]
        return pg.has_errors, notes


def check(case, rec: Rec) -> None:
    text, exp, stats = P.render(case["page"], case["today"])
    lex_errs, par_errs, _ = P.independent_parse(text)
    if lex_errs or par_errs:
        raise InvalidCase(f"generated page does not parse cleanly: {(lex_errs + par_errs)[:2]}\n{text}")
    has_errors, got = compile_text(text, case["today"], rec)
    if has_errors:
        raise Violation("has_errors", f"error-free page flagged has_errors\n{text}")
    if len(got) != len(exp):
        raise Violation("note-count", f"{len(got)} notes compiled, {len(exp)} items written\n{text}\n"
                        f"compiled bodies: {[g['body'][:30] for g in got]}")
    for i, (g, e) in enumerate(zip(got, exp)):
        for f in FIELDS:
            if g[f] != e[f]:
                raise Violation(f"field:{f}", f"note {i} (line {e['line']}): {f} compiled {g[f]!r}, written {e[f]!r}\n"
                                f"item text: {text.splitlines()[e['line'] - 1]!r}\n--- page\n{text}")
    for k in ("multi", "h34", "nozid_in_sec", "lookalike", "full_prefix", "gap", "bprop", "comments"):
        if stats[k]:
            rec.label(k)
    rec.info["items"] = stats["items"]
    rec.nontrivial = stats["items"] >= 2 and any(
        stats[k] for k in ("multi", "lookalike", "full_prefix", "h34", "nozid_in_sec"))


REQUIRED_LABELS = {"multi": 0.2, "h34": 0.1, "nozid_in_sec": 0.2, "lookalike": 0.2, "full_prefix": 0.05, "gap": 0.1}


def sample_view(case):
    return P.render(case["page"], case["today"])[0]


def parts(tier):
    from ..engine import load_findings

    P.set_open({f["key"] for f in load_findings(ID) + load_findings("C02") + load_findings("C08")
                if f.get("status") == "known"})
    quick = tier == "quick"
    return [HypPart(name="compile", check=check, strategy=_case,
                    examples=110 if quick else 2500, seconds=50 if quick else 600)]
