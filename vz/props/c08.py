"""C08 -- indexing never crashes on any file and never silently drops a broken one."""

from __future__ import annotations

from pathlib import Path

from hypothesis import strategies as st

from .. import env
from ..driver import EnumPart, Excluded, HypPart, InvalidCase, Rec, Violation
from ..model import dbdump
from ..model import page as P

ID = "C08"
LEVEL = "exploration"
RULE = (
    "Hypothesis draws file contents of three classes: (a) valid pages from the C01 generator plus the shapes "
    "the bullet-property scanner indexes into (first words of exactly six digits that are / are not calendar "
    "dates, bullets consisting only of a date or ZID, empty bullets, '::' at line ends); (b) valid pages damaged "
    "by 1-4 edits (delete / insert / replace a character, duplicate / delete / swap lines, drop the blank line "
    "after the head, drop the final newline, insert a grammar token at a random offset); (c) arbitrary text: "
    "sequences over the grammar's token vocabulary, arbitrary unicode text and arbitrary bytes (invalid UTF-8 "
    "included).  Oracle: walk_zorg_page returns; E := an independent parse of the same character stream with our "
    "own error listener reports a parser syntax error; E => has_errors, not E => not has_errors and the number "
    "of notes equals the number of item nodes with non-empty body in our parse tree; for 1 case in 3 the file is "
    "also pushed through `db create` (refused iff E; with -f accepted and whitelisted iff E), through `db "
    "reindex` as the new content of a previously good indexed page (refused iff E) and the raw index is "
    "inspected: the page is never present unflagged with fewer notes than written.  (whitelist) directories of "
    "2-5 pages whose names are substrings of one another, some broken and whitelisted by `db create -f`, then "
    "pages are broken / fixed / edited and `db create` or `db reindex` must refuse iff a non-whitelisted page "
    "became broken, and keep whitelist and index flags equal to the set of broken pages.  (atheris, thorough tier "
    "only) 16 coverage-guided libFuzzer campaigns (seeded with truncated repository pages / empty corpus) with the "
    "same compile-level oracle inside the target; executions are added to evaluations.  Non-trivial = class b/c "
    "case with E, or class a case with a multi-line item; distinct by SHA-1 of the case."
)
ASSUMPTIONS = [
    "the character stream is what walk_zorg_page reads: bytes decoded as ASCII with undecodable bytes ignored",
    "lexer token-recognition errors are not parser errors (the statement speaks of the parser)",
]

TOKENS = ["\n", "\n", " ", " ", "  ", "# ", "#", "- ", "o ", "x ", "~ ", "< ", "> ", "P1 ", "P9", "foo", "bar", "o", "x",
          "240101", "123456", "999999", "240101#ab", "2024-01-01", "2024-03-32", "2024-02-30.", "1230", "[[", "]]", "[[p]]", "[#g]", "[^l]", "[^x]",
          "[^X]", "[@r]", "[240101#ab]", "((e))", "((", "))", "k::v", "k::", "[k:: v w]", "[k::", ":: ", "::", "#t",
          "@c", "%p", "+j", "#", "@", "%", "+", "'", '"', "'q'", "https://x.y/z", "https://", "http", P.MARK[1] + " ",
          P.MARK[2] + " ", P.MARK[3] + " ", P.MARK[4] + " ", P.MARK[4], "  * ", "    - ", "      + ", "*", "-", "--",
          "(", ")", ",", ".", "!", "?", ";", ":", "|", "\\", "`", "{", "}", "&", "=", "$", "^", "_", "/", "~", "<", ">",
          "\t", "\r\n", "é", "[", "]"]

_ODD_ITEMS = [
    "- 123456 widgets", "~ 123456<", "- 999999", "o 241332 foo", "- 241332#ab foo", "- 240101\n  * k:: v",
    "- a:: b\n  * 240101#00", "- foo\n  * \n  * k:: v", "- foo\n  * k::\n    - \n    - v", "- 240101 240101#ab",
    "- k:: ", "- foo ::\n  * 991231", "x 240101#ab\n  * 240102\n  * k:: v w", "- foo\n    - k::v\n      + k2::v",
    "- [k::", "- foo [k:: v", "o P1", "- [[a]] [^l] [#g] [@r]", "- 'k::v' \"x", "- foo\n  *\n  * k:: v",
    "- 2024-03-32 foo", "o P1 2024-02-30", "- foo 2023-13-01 k::2024-02-30", "- [^x]", "- a [#o] b", "o [@x] foo", "- [^o]\n  * k:: v", "- [P1]", "- [[o]] [[x]] #o @x", "- [240101#a]", "- #\n- @ x",
    "- foo\n  * 240620\n  * due:: 240701", "- foo\n  * PROPERTY:\n    - 240620\n    - k:: v", "- 240101#ab\n  * k:: v",
    "- 2024-01-01\n  * k:: v", "o P1 240101\n  * 240101#ab\n  * k:: v",
    "- ((", "- [k::]", "- [::v]", "- k::[[a]]", "- https://", "- http://o.x/o/x", "x x x", "o o", "- [[a#]] [[#a]]",
]


@st.composite
def _case(draw):
    cls = draw(st.sampled_from("aabbc"))
    today = draw(st.sampled_from(["2024-06-15", "2000-01-03"]))
    index = draw(st.integers(0, 2)) == 0
    if cls == "a":
        pg = draw(P.page(rich=True, max_headers=3))
        extra = draw(st.lists(st.sampled_from(_ODD_ITEMS), max_size=5))
        return {"cls": "a", "page": pg, "extra": extra, "today": today, "index": index}
    if cls == "b":
        pg = draw(P.page(rich=draw(st.booleans()), max_headers=3))
        edits = []
        for _ in range(draw(st.integers(1, 4))):
            op = draw(st.sampled_from(["del", "ins", "rep", "dupline", "delline", "swapline", "nohead", "nonl", "tok"]))
            e = {"op": op, "pos": draw(st.integers(0, 10 ** 6))}
            if op in ("ins", "rep"):
                e["ch"] = draw(st.sampled_from(list(" \n#-ox~<>P[]():'\"*+=|") + ["é", "\t"]))
            if op == "tok":
                e["tok"] = draw(st.sampled_from(TOKENS))
            edits.append(e)
        return {"cls": "b", "page": pg, "edits": edits, "today": today, "index": index}
    kind = draw(st.sampled_from(["tokens", "tokens", "text", "bytes"]))
    if kind == "tokens":
        toks = draw(st.lists(st.sampled_from(TOKENS), min_size=0, max_size=40))
        prefix = draw(st.sampled_from(["", "# T\n\n", "# T\n", "# T\n\n- 240101#aa ok note\n", "# T\n\n- ok\n  * k:: v\n",
                                       "# T\n\no P1 todo\n"]))
        return {"cls": "c", "text": prefix + "".join(toks), "today": today, "index": index}
    if kind == "text":
        return {"cls": "c", "text": draw(st.text(max_size=60)), "today": today, "index": index}
    return {"cls": "c", "hex": draw(st.binary(max_size=60)).hex(), "today": today, "index": index}


def case_bytes(case) -> bytes:
    if "hex" in case:
        return bytes.fromhex(case["hex"])
    if "text" in case:
        return case["text"].encode("utf-8", errors="surrogatepass")
    text, _, _ = P.render(case["page"], case["today"])
    if case["cls"] == "a":
        if case.get("extra"):
            if not (case["page"]["body"] or case["page"]["secs"]):
                text += "\n"
            text += "\n".join(case["extra"]) + "\n"
        return text.encode()
    for e in case["edits"]:
        n = len(text)
        lines = text.split("\n")
        i = e["pos"] % max(1, n)
        li = e["pos"] % max(1, len(lines))
        op = e["op"]
        if op == "del" and n:
            text = text[:i] + text[i + 1:]
        elif op == "ins":
            text = text[:i] + e["ch"] + text[i:]
        elif op == "rep" and n:
            text = text[:i] + e["ch"] + text[i + 1:]
        elif op == "tok":
            text = text[:i] + e["tok"] + text[i:]
        elif op == "dupline":
            lines.insert(li, lines[li])
            text = "\n".join(lines)
        elif op == "delline":
            del lines[li]
            text = "\n".join(lines)
        elif op == "swapline" and len(lines) > 1:
            j = (li + 1) % len(lines)
            lines[li], lines[j] = lines[j], lines[li]
            text = "\n".join(lines)
        elif op == "nohead":
            text = text.replace("\n\n", "\n", 1)
        elif op == "nonl":
            text = text.rstrip("\n")
    return text.encode("utf-8", errors="surrogatepass")


def _count_items(tree, nodes=False) -> int:
    """Items with a non-empty body in OUR parse tree (nodes=True: item nodes of any shape)."""
    from zorg.grammar.zorg_file.ZorgFileParser import ZorgFileParser

    n = 0
    stack = [tree]
    while stack:
        t = stack.pop()
        if isinstance(t, (ZorgFileParser.Base_noteContext, ZorgFileParser.Base_todoContext)):
            nb = t.note_body()
            if nodes or (nb is not None and nb.getText().strip() != ""):
                n += 1
        for c in (getattr(t, "children", None) or []):
            stack.append(c)
    return n


_GOOD = "# good\n\n- 240101#g1 first k::v #t\n- 240101#g2 second [[l]]\n"


def check(case, rec: Rec) -> None:
    from zorg.service.compiler import walk_zorg_page

    data = case_bytes(case)
    stream = data.decode("ascii", errors="ignore")
    lex_errs, par_errs, tree = P.independent_parse(stream)
    E = bool(par_errs)
    n_items = _count_items(tree)
    n_nodes = _count_items(tree, nodes=True)
    with env.sandbox("vz-c08-") as box:
        (box / "p.zo").write_bytes(data)
        with env.frozen(case["today"]):
            with rec.sut("walk_zorg_page"):
                page = walk_zorg_page(box, Path("p.zo"), verbose=True)
                notes = page.notes
        if E and n_nodes == 0 and "noteless-broken-page" in rec.open_keys:
            raise Excluded("noteless-broken-page")  # (totality was still checked above)
        if E and not page.has_errors:
            raise Violation("syntax-error-not-flagged",
                            f"parser reports {par_errs[:2]} but has_errors is False ({len(notes)} notes)\n{stream!r}")
        if not E and page.has_errors:
            raise Violation("flagged-without-error", f"no parser error but has_errors is True\n{stream!r}")
        if not E and len(notes) != n_items:
            raise Violation("notes-dropped", f"{n_items} items with a body, {len(notes)} notes compiled\n{stream!r}")
        if case.get("index"):
            _index_clause(case, rec, data, E, n_items)
            rec.label("index-clause")
    rec.label("class-" + case["cls"])
    if E:
        rec.label("E")
    if lex_errs:
        rec.label("lexer-errors")
    multi = case["cls"] == "a" and any(len(it.get("lines", [])) > 1 for bl in case["page"]["body"] for it in bl["items"])
    rec.nontrivial = (case["cls"] in "bc" and E) or (case["cls"] == "a" and (multi or bool(case.get("extra"))))


def _page_rows(zdir, rel):
    d = dbdump.dump(zdir)
    pages = [p for p in d["pages"] if p[0] == rel]
    notes = [n for n in d["notes"] if n["page"] == rel]
    return pages, notes


def _index_clause(case, rec, data: bytes, E: bool, n_items: int) -> None:
    with env.frozen(case["today"]):
        # --- db create without whitelist
        with env.sandbox("vz-c08i-") as box:
            zdir = box / "org"
            zdir.mkdir()
            (zdir / "p.zo").write_bytes(data)
            with rec.sut("db-create"):
                r = env.zorg(zdir, "db", "create")
            if E and r.code == 0:
                pages, notes = _page_rows(zdir, "p.zo")
                raise Violation("create-accepts-broken-page",
                                f"`db create` exited 0 for a page with syntax errors; index rows: pages={pages}, "
                                f"{len(notes)} notes\n{data!r}")
            if not E and r.code != 0:
                raise Violation("create-refuses-valid-page", f"`db create` exited {r.code} for an error-free page\n{data!r}")
            pages, notes = _page_rows(zdir, "p.zo")
            if not E:
                if [p[1] for p in pages] != [0] or len(notes) != n_items:
                    raise Violation("create-partial-index",
                                    f"error-free page with {n_items} items indexed as pages={pages}, {len(notes)} notes\n{data!r}")
            else:
                if any(p[1] == 0 for p in pages):
                    raise Violation("broken-page-indexed-unflagged", f"after refused create: pages={pages}, {len(notes)} notes")
        # --- db create -f
        with env.sandbox("vz-c08f-") as box:
            zdir = box / "org"
            zdir.mkdir()
            (zdir / "p.zo").write_bytes(data)
            with rec.sut("db-create-f"):
                r = env.zorg(zdir, "db", "create", "-f")
            if r.code != 0:
                raise Violation("create-f-fails", f"`db create -f` exited {r.code}\n{data!r}")
            wl = (zdir / ".zorg" / "error_file_whitelist.txt").read_text().split("\n")
            if ("p.zo" in wl) != E:
                raise Violation("whitelist", f"E={E} but whitelist={wl}\n{data!r}")
            pages, notes = _page_rows(zdir, "p.zo")
            if E and any(p[1] == 0 for p in pages):
                raise Violation("broken-page-indexed-unflagged", f"after create -f: pages={pages}")
            # the data may have been rewritten with ZIDs; a further plain reindex / create must agree
            with rec.sut("db-create-again"):
                r2 = env.zorg(zdir, "db", "create")
            if r2.code != 0 and not _still_broken(zdir):
                raise Violation("create-after-whitelist", f"second `db create` exited {r2.code}")
        # --- db reindex of a previously good page that became `data`
        with env.sandbox("vz-c08r-") as box:
            zdir = box / "org"
            zdir.mkdir()
            (zdir / "p.zo").write_text(_GOOD)
            (zdir / "q.zo").write_text("# other\n\n- 240101#q1 untouched\n")
            with rec.sut("db-create-good"):
                r = env.zorg(zdir, "db", "create")
            if r.code != 0:
                raise Violation("create-refuses-valid-page", f"good page refused: {r.out[-200:]}")
            (zdir / "p.zo").write_bytes(data)
            with rec.sut("db-reindex"):
                r = env.zorg(zdir, "db", "reindex")
            pages, notes = _page_rows(zdir, "p.zo")
            if E:
                if r.code == 0:
                    raise Violation("reindex-accepts-broken-page",
                                    f"`db reindex` exited 0 for a newly broken page; pages={pages}, {len(notes)} notes\n{data!r}")
                # refused: the index must not hold the page unflagged with only part of its notes
                if any(p[1] == 0 for p in pages) and len(notes) not in (2,):
                    raise Violation("refused-reindex-leaves-partial-page",
                                    f"after the refused reindex the index holds page rows {pages} with {len(notes)} "
                                    f"of the 2 previously indexed notes: {[n['body'] for n in notes]}\n{data!r}")
                if any(p[1] == 0 for p in pages) and any(n["props"] == {} and n["body"].startswith("240101#g1") for n in notes):
                    raise Violation("refused-reindex-leaves-partial-page",
                                    f"after the refused reindex note g1 lost its properties: {notes}")
            else:
                if r.code != 0:
                    raise Violation("reindex-refuses-valid-page", f"`db reindex` exited {r.code}\n{data!r}")
                if [p[1] for p in pages] != [0] or len(notes) != n_items:
                    raise Violation("reindex-partial-index",
                                    f"error-free page with {n_items} items reindexed as pages={pages}, {len(notes)} notes\n{data!r}")
            _, qn = _page_rows(zdir, "q.zo")
            if len(qn) != 1:
                raise Violation("other-page-disturbed", f"q.zo has {len(qn)} notes after reindexing p.zo")


def _still_broken(zdir) -> bool:
    data = (zdir / "p.zo").read_bytes().decode("ascii", errors="ignore")
    return bool(P.independent_parse(data)[1])


def check_atheris(case, rec: Rec) -> None:
    """One libFuzzer campaign (child process) with the C08 oracle inside the target."""
    import os
    import shutil
    import subprocess
    import sys
    import tempfile

    verif = str(Path(__file__).resolve().parent.parent.parent)
    deps = os.path.join(verif, ".deps")
    if not os.path.isdir(os.path.join(deps, "atheris")):
        subprocess.run([sys.executable, "-m", "pip", "install", "-q", "--no-index", "--find-links",
                        "/opt/veriftools/wheels", "--target", deps, "atheris"],
                       stdout=subprocess.DEVNULL, stderr=subprocess.DEVNULL)
    if not os.path.isdir(os.path.join(deps, "atheris")):
        rec.label("atheris-unavailable")
        return
    out = tempfile.mkdtemp(prefix="vz-c08-fuzz-", dir=env._TMP_ROOT)
    try:
        src = os.path.join(os.environ.get("VERIF_REPO", "/repo"), "src")
        envv = dict(os.environ, PYTHONPATH=verif, VZ_C08_OPEN=",".join(sorted(rec.open_keys)))
        try:
            p = subprocess.run([sys.executable, "-m", "vz.fuzz_c08", src, out, str(case["runs"]), str(case["seed"]),
                                case["corpus"]], stdout=subprocess.DEVNULL, stderr=subprocess.DEVNULL, env=envv,
                               cwd=verif, timeout=case["timeout"])
            code = p.returncode
        except subprocess.TimeoutExpired:
            code = "timeout"
        execs = 0
        if os.path.exists(os.path.join(out, "execs.txt")):
            execs = int(open(os.path.join(out, "execs.txt")).read().strip() or 0)
        rec.sub_evals += execs
        rec.info["atheris_execs"] = execs
        if os.path.exists(os.path.join(out, "crash.bin")):
            data = open(os.path.join(out, "crash.bin"), "rb").read()
            clause = open(os.path.join(out, "crash.txt")).read().strip()
            small = {"cls": "c", "hex": data.hex(), "today": "2024-06-15", "index": False}
            try:
                check(small, Rec())
            except Violation as v:
                raise Violation(v.clause, "[found by atheris] " + v.detail, case=small, part="texts")
            raise Violation("atheris:" + clause, f"input {data!r} (not reproduced by the Hypothesis-side oracle)",
                            case=small, part="texts")
        if code not in (0, "timeout"):
            # libFuzzer's own crash artefacts (timeouts, OOM) are not property violations
            rec.label(f"atheris-exit-{code}")
        rec.label("atheris:" + case["corpus"])
        rec.nontrivial = execs > 0
    finally:
        shutil.rmtree(out, ignore_errors=True)


REQUIRED_LABELS = {"E": 0.15, "class-a": 0.1, "class-b": 0.1, "class-c": 0.05, "index-clause": 0.1}


def sample_view(case):
    return repr(case_bytes(case)[:1500])


def parts(tier):
    from ..engine import load_findings

    P.set_open({f["key"] for f in load_findings(ID) + load_findings("C01") + load_findings("C02")
                if f.get("status") == "known"})
    quick = tier == "quick"
    fuzz = []
    if not quick:
        seed = int(__import__("os").environ.get("VERIF_SEED", "1") or "1")
        fuzz = [EnumPart(name="atheris", check=check_atheris, exhaustive=False, seconds=330,
                         items=lambda: [{"runs": 2500, "seed": seed * 100 + i, "corpus": "seeded" if i % 2 == 0 else "empty",
                                         "timeout": 200} for i in range(16)])]
    return fuzz + [HypPart(name="texts", check=check, strategy=_case,
                    examples=110 if quick else 4000, seconds=42 if quick else 420),
            HypPart(name="whitelist", check=check_whitelist, strategy=_wl_case,
                    examples=30 if quick else 500, seconds=25 if quick else 240)]


# ---------------------------------------------------------------- whitelist histories

_NAMES = ["notes.zo", "project_notes.zo", "a.zo", "aa.zo", "sub/a.zo", "sub/notes.zo", "b.zo", "ab.zo", "o.zo"]
_VALID = "# page {n}\n\n- 2401{d:02d}#a{i} note of {n}\no P2 2401{d:02d}#b{i} todo\n"
_BROKEN = "# page {n}\n\n- 2401{d:02d}#a{i} note of {n}\n- [[unclosed\n"


_PAIRS = [("notes.zo", "project_notes.zo"), ("a.zo", "aa.zo"), ("a.zo", "sub/a.zo"), ("b.zo", "ab.zo"),
          ("notes.zo", "sub/notes.zo"), ("o.zo", "foo.zo")]


@st.composite
def _wl_case(draw):
    names = []
    init, later = {}, {}
    for sub, sup in draw(st.lists(st.sampled_from(_PAIRS), min_size=1, max_size=2, unique=True)):
        for n in (sub, sup):
            if n not in names:
                names.append(n)
        # a whitelisted broken page whose name contains the name of a page that breaks later
        init[sup] = draw(st.sampled_from(["broken", "broken", "valid"]))
        init[sub] = draw(st.sampled_from(["valid", "valid", "broken"]))
        later[sub] = draw(st.sampled_from(["break", "break", "same", "edit", "fix"]))
        later[sup] = draw(st.sampled_from(["same", "same", "fix", "edit", "break"]))
    for n in draw(st.lists(st.sampled_from(_NAMES), max_size=2, unique=True)):
        if n not in names:
            names.append(n)
            init[n] = draw(st.sampled_from(["valid", "valid", "broken"]))
            later[n] = draw(st.sampled_from(["same", "same", "break", "fix", "edit"]))
    # pages that only appear after the first indexing run: valid, or broken from the start
    for n in draw(st.lists(st.sampled_from(["m_new.zo", "zz_new.zo", "a0_new.zo", "sub/n_new.zo"]), max_size=2, unique=True)):
        names.append(n)
        init[n] = "absent"
        later[n] = draw(st.sampled_from(["add-valid", "add-broken", "add-broken"]))
    return {"names": names, "init": init, "later": later, "cmd": draw(st.sampled_from(["create", "reindex"])),
            "today": "2024-06-15"}


def _wl_text(name, state, i, edit=False):
    t = (_VALID if state == "valid" else _BROKEN).format(n=name.replace("/", "_"), d=i + 1, i=i)
    if edit:
        t = t.replace("note of", "edited note of")
    return t


def check_whitelist(case, rec: Rec) -> None:
    names = case["names"]
    with env.sandbox("vz-c08w-") as box, env.frozen(case["today"]):
        zdir = box / "org"
        zdir.mkdir()
        state = dict(case["init"])
        for i, n in enumerate(names):
            if state[n] == "absent":
                continue
            (zdir / n).parent.mkdir(parents=True, exist_ok=True)
            (zdir / n).write_text(_wl_text(n, state[n], i))
        with rec.sut("db-create-f"):
            r = env.zorg(zdir, "db", "create", "-f")
        if r.code != 0:
            raise Violation("create-f-fails", f"`db create -f` exited {r.code}: {r.out[-200:]}")
        wl_path = zdir / ".zorg" / "error_file_whitelist.txt"
        wl = sorted(x for x in wl_path.read_text().split("\n") if x)
        exp = sorted(n for n in names if state[n] == "broken")
        if wl != exp:
            raise Violation("whitelist", f"after create -f: whitelist {wl}, broken pages {exp}")
        newly_broken = []
        for i, n in enumerate(names):
            act = case["later"][n]
            if act == "break" and state[n] == "valid":
                state[n] = "broken"
                newly_broken.append(n)
                (zdir / n).write_text(_wl_text(n, "broken", i))
            elif act == "fix" and state[n] == "broken":
                state[n] = "valid"
                (zdir / n).write_text(_wl_text(n, "valid", i))
            elif act == "edit":
                (zdir / n).write_text(_wl_text(n, state[n], i, edit=True))
            elif act in ("add-valid", "add-broken"):
                state[n] = "valid" if act == "add-valid" else "broken"
                (zdir / n).parent.mkdir(parents=True, exist_ok=True)
                (zdir / n).write_text(_wl_text(n, state[n], i))
                if state[n] == "broken":
                    newly_broken.append(n)
        with rec.sut("db-" + case["cmd"]):
            r = env.zorg(zdir, "db", case["cmd"])
        if newly_broken and r.code != 0:
            # refused: the very same command must keep refusing until the page is repaired or whitelisted
            for again in (2, 3):
                with rec.sut("db-" + case["cmd"] + "-again"):
                    r2 = env.zorg(zdir, "db", case["cmd"])
                if r2.code == 0:
                    raise Violation(case["cmd"] + "-accepts-broken-page-on-rerun",
                                    f"`db {case['cmd']}` refused {newly_broken} (exit {r.code}) but run #{again} of the same "
                                    f"command exited 0 although nothing was repaired or whitelisted")
            rec.label("wl-refusal-repeated")
        if newly_broken and r.code == 0:
            raise Violation(case["cmd"] + "-accepts-broken-page",
                            f"`db {case['cmd']}` exited 0 although {newly_broken} became broken and are not "
                            f"whitelisted (whitelist before: {wl}, after: {wl_path.read_text().split()})")
        if not newly_broken and r.code != 0:
            raise Violation(case["cmd"] + "-refuses-valid-directory",
                            f"`db {case['cmd']}` exited {r.code} although no page became broken; states {state}, "
                            f"whitelist before {wl}: {r.out[-300:]}")
        if not newly_broken:
            wl2 = sorted(x for x in wl_path.read_text().split("\n") if x)
            exp2 = sorted(n for n in names if state[n] == "broken")
            if wl2 != exp2:
                raise Violation("whitelist", f"after db {case['cmd']}: whitelist {wl2}, broken pages {exp2}")
            d = dbdump.dump(zdir)
            flagged = sorted(p[0] for p in d["pages"] if p[1])
            if flagged != exp2:
                raise Violation("index-flags", f"pages flagged in the index {flagged}, broken pages {exp2}")
            for n in names:
                if state[n] == "valid" and sum(1 for x in d["notes"] if x["page"] == n) != 2:
                    raise Violation("notes-dropped", f"valid page {n} has "
                                    f"{sum(1 for x in d['notes'] if x['page'] == n)} indexed notes, 2 written")
        else:
            d = dbdump.dump(zdir)
            for n in newly_broken:
                if any(p[0] == n and p[1] == 0 for p in d["pages"]) and \
                        sum(1 for x in d["notes"] if x["page"] == n) not in (2,):
                    raise Violation("refused-" + case["cmd"] + "-leaves-partial-page",
                                    f"{n}: page row unflagged with {sum(1 for x in d['notes'] if x['page'] == n)} notes")
    rec.label("wl-" + case["cmd"])
    if newly_broken:
        rec.label("wl-newly-broken")
    if exp:
        rec.label("wl-nonempty-whitelist")
    rec.nontrivial = bool(exp) and (bool(newly_broken) or any(v == "fix" for v in case["later"].values()))
