"""C12 -- a note's text form compiles back to the same note."""

from __future__ import annotations

from pathlib import Path

from hypothesis import strategies as st

from .. import env
from ..driver import Excluded, HypPart, InvalidCase, Rec, Violation
from ..model import dbdump
from ..model import page as P

ID = "C12"
LEVEL = "exploration"
RULE = (
    "(notes) Hypothesis draws pages with the C01 generator (no metadata on title/header lines, so a note "
    "carries only what is written in it) plus hand-picked valid items whose body starts with a prefix look-alike "
    "(Pn, o, x, dates); every note the real compiler returns is rendered with Note.to_string(), placed under a "
    "page header and compiled again: exactly one note, no syntax error, same kind, ZID, body, tags, links and "
    "properties, same dates when it has a ZID, same priority unless done/cancelled.  (sets) directories are "
    "indexed with `db create`; `S note [W kinds] O keys` (every ordering key list drawn, ungrouped) is run through "
    "swog.execute and through a refreshed .zoq page; the output placed under a header must compile without "
    "errors to exactly the selected notes (multiset of kind, ZID, body) as read from the raw index rows.  "
    "(moved) C10's directories and moves (inherited metadata, destinations of every shape, done / cancelled markers): "
    "the lines `note move` adds, on their own under a header, are one valid item with the note's ZID, and the note "
    "compiled from the destination has the requested kind, the same ZID, dates, priority, body words and "
    "continuation lines and at least the tags and properties it had (inherited ones now explicit); clauses about "
    "placement and about the rest of the two files belong to C10 and are skipped here.  "
    "Non-trivial = multi-line note, or a body whose first word is a look-alike, or a done/cancelled todo; "
    "distinct by SHA-1 of the case."
)
ASSUMPTIONS = [
    "'every note the compiler can produce' is approximated by compiling generated valid pages",
    "a .zoq page is written without a final newline; the check appends one when it places the text in a page",
]

_ODD = ["o P1 P5 foo", "- P5 foo", "- o foo", "- x P1", "o P1 o x", "- 1234 time", "< P2 2024-01-01 dated",
        "- 240101 stamped only", "> P9 240101 240101#zy both", "x P1 P5 foo", "~ P2 P0 bar", "x P3 o"]
_ORDER_KEYS = ["alpha", "create", "modify", "priority", "type", "none"]


@st.composite
def _note_case(draw):
    return {"page": draw(P.page(rich=True, max_headers=3, plain_scopes=True)),
            "odd": draw(st.lists(st.sampled_from(_ODD), max_size=2)), "today": "2024-06-15"}


def _compile(text, today, rec, what):
    from zorg.service.compiler import walk_zorg_page

    with env.sandbox("vz-c12-") as box:
        (box / "p.zo").write_text(text)
        with env.frozen(today):
            with rec.sut(what):
                pg = walk_zorg_page(box, Path("p.zo"))
                return pg.has_errors, list(pg.notes)


def _looks_like_prefix(word: str) -> bool:
    import re

    return bool(re.match(r"^(o|x|P\d|\d{4}-\d\d-\d\d|\d{6}|\d{6}#\w{2,3}|\d{4})$", word))


def check_notes(case, rec: Rec) -> None:
    text, exp, stats = P.render(case["page"], case["today"])
    if case["odd"]:
        if not (case["page"]["body"] or case["page"]["secs"]):
            text += "\n"
        text += "\n".join(case["odd"]) + "\n"
    if any(P.independent_parse(text)[:2]):
        raise InvalidCase("page does not parse cleanly:\n" + text)
    has_errors, notes = _compile(text, case["today"], rec, "walk_zorg_page")
    if has_errors or len(notes) != len(exp) + len(case["odd"]):
        raise InvalidCase("C01 territory: page did not compile to its items")
    nontriv = False
    for n in notes:
        d = P.dump_note(n)
        with rec.sut("to_string"):
            s = n.to_string()
        first_word = d["body"].split()[0] if d["body"].split() else ""
        done = d["kind"] in ("CLOSED_TODO", "CANCELED_TODO")
        if done and d["zid"] is None and first_word[:1] == "P" and _looks_like_prefix(first_word) \
                and "done-todo-body-starts-with-priority" in rec.open_keys:
            raise Excluded("done-todo-body-starts-with-priority")
        page2 = "# h\n\n" + s
        lex, par, _ = P.independent_parse(page2)
        if par:
            raise Violation("emitted-text-invalid", f"to_string() of {d['body']!r} gives {s!r}: {par[:2]}")
        he2, notes2 = _compile(page2, case["today"], rec, "recompile")
        if he2 or len(notes2) != 1:
            raise Violation("emitted-text-not-one-note", f"{s!r} compiles to {len(notes2)} notes, has_errors={he2}")
        m = P.dump_note(notes2[0])
        fields = ["kind", "zid", "body", "areas", "contexts", "people", "projects", "links", "props"]
        if d["zid"]:
            fields += ["create", "modify"]
        if d["kind"] not in ("BASIC", "CLOSED_TODO", "CANCELED_TODO"):
            fields.append("priority")
        for f in fields:
            if m[f] != d[f]:
                raise Violation(f"roundtrip:{f}", f"note {d['body']!r} ({d['kind']}, {d['priority']}) -> {s!r} -> "
                                f"{f} {m[f]!r} instead of {d[f]!r}")
        if "\n" in d["body"] or _looks_like_prefix(first_word) or done:
            nontriv = True
        if "\n" in d["body"]:
            rec.label("multi-line")
        if _looks_like_prefix(first_word):
            rec.label("lookalike-first")
        if done:
            rec.label("done/cancelled")
    rec.info["notes"] = len(notes)
    rec.nontrivial = nontriv


# ---------------------------------------------------------------- sets

@st.composite
def _set_case(draw):
    return {"dir": draw(P.directory(1, 3, rich=True, max_headers=2)),
            "kinds": draw(st.one_of(st.none(), st.lists(st.sampled_from(list("-ox~<>")), min_size=1, max_size=3, unique=True))),
            "order": draw(st.lists(st.sampled_from(_ORDER_KEYS), min_size=1, max_size=3)),
            "zoq": draw(st.booleans()), "today": "2024-06-15"}


def check_sets(case, rec: Rec) -> None:
    from zorg.service import swog

    files = {}
    for rel, pg in case["dir"].items():
        files[rel] = P.render(pg, case["today"])[0]
        if any(P.independent_parse(files[rel])[:2]):
            raise InvalidCase("page does not parse cleanly")
    with env.sandbox("vz-c12s-") as box, env.frozen(case["today"]):
        zdir = box / "org"
        zdir.mkdir()
        env.write_files(zdir, files)
        r = env.zorg(zdir, "db", "create")
        if r.code != 0:
            raise InvalidCase(f"db create failed ({r.code}); C05/C08 territory")
        rows = dbdump.dump(zdir)["notes"]
        kinds = case["kinds"]
        kmap = P.KIND_NAME
        sel = [n for n in rows if kinds is None or n["kind"] in {kmap[k] for k in kinds}]
        # 'o', 'x' next to each other lex as one ID in the query grammar: one word per kind
        q = "S note" + ((" W " + " ".join(kinds)) if kinds else "") + " O " + " ".join(case["order"])
        env.fresh_process()
        if case["zoq"]:
            (zdir / "zoq").mkdir()
            zp = zdir / "zoq" / "saved.zoq"
            zp.write_text(f"# {q}\n# a comment\n")
            with rec.sut("refresh_zoq_file"):
                swog.refresh_zoq_file(zdir, env.db_url(zdir), zp)
            out = zp.read_text()
            if not out.startswith(f"# {q}\n# a comment\n"):
                raise Violation("zoq-header-lost", f"refreshed .zoq starts with {out[:80]!r}")
            text = out if out.endswith("\n") else out + "\n"
        else:
            with rec.sut("swog.execute"):
                out = swog.execute(zdir, env.db_url(zdir), q)
            text = "# h\n\n" + out + "\n"
        env.fresh_process()
        lex, par, _ = P.independent_parse(text)
        if par and sel:
            raise Violation("rendered-selection-invalid", f"query {q!r}: output is not a valid page: {par[:2]}\n{text}")
        if not sel:
            rec.label("empty-selection")
            return
        he, notes = _compile(text, case["today"], rec, "recompile")
        got = sorted((P.dump_note(n)["kind"], n.zid, n.body) for n in notes)
        want = sorted((n["kind"], n["zid"], n["body"]) for n in sel)
        if he or got != want:
            missing = [w for w in want if w not in got]
            extra = [g for g in got if g not in want]
            raise Violation("rendered-selection-differs",
                            f"query {q!r} ({'zoq' if case['zoq'] else 'execute'}): has_errors={he}, missing {missing[:3]}, "
                            f"unexpected {extra[:3]}\n{text}")
    rec.label("zoq" if case["zoq"] else "execute")
    rec.info["selected"] = len(sel)
    rec.nontrivial = len(sel) >= 2 and any("\n" in n["body"] or n["kind"] in ("CLOSED_TODO", "CANCELED_TODO") for n in sel)


# ---------------------------------------------------------------- moved notes

# clauses of C10's move oracle that speak about the text of the moved note (not about where it was put or
# what happened to the rest of the two files)
_MOVED_CLAUSES = {"moved-text-not-one-valid-item", "moved-note-kind", "moved-note-lost-tag", "moved-note-lost-property",
                  "moved-note-dates", "moved-note-priority", "moved-note-body"}


def check_moved(case, rec: Rec) -> None:
    from . import c10

    c10.check(case, rec, only=_MOVED_CLAUSES)


def _moved_case():
    from . import c10

    return c10._case().map(lambda c: dict(c, max_moves=5))


def sample_view(case):
    if "moves" in case:
        return f"pages {sorted(case['dir'])}; moves {[(m['zid'], m['dest'], m['marker']) for m in case['moves']]}"
    if "page" in case:
        return P.render(case["page"], case["today"])[0] + "\n".join(case.get("odd", []))
    return f"pages {sorted(case['dir'])}; S note W {case['kinds']} O {case['order']} ({'zoq' if case['zoq'] else 'execute'})"


def parts(tier):
    quick = tier == "quick"
    return [HypPart(name="notes", check=check_notes, strategy=_note_case,
                    examples=40 if quick else 1200, seconds=24 if quick else 500),
            HypPart(name="sets", check=check_sets, strategy=_set_case,
                    examples=25 if quick else 700, seconds=24 if quick else 500),
            HypPart(name="moved", check=check_moved, strategy=_moved_case,
                    examples=6 if quick else 300, seconds=22 if quick else 400)]
