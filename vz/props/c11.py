"""C11 -- modification dates are stamped on exactly the notes that were edited."""

from __future__ import annotations

import re
from pathlib import Path

from hypothesis import strategies as st

from .. import env
from ..driver import HypPart, InvalidCase, Rec, Violation
from ..model import dbdump, edits
from ..model import page as P
from .c05 import agreement
from .c06 import canon, day_str

ID = "C11"
LEVEL = "exploration"
RULE = (
    "Hypothesis draws an initial directory (1-3 pages; notes with ZIDs, some already stamped on earlier days, "
    "some written with a stamp equal to their creation date, irregular gaps after the prefix, multi-line notes, "
    "sections) indexed on day D0, then a history of 4-16 steps over several calendar days: edit body words / "
    "bullets / kind / priority of a note, edit only a title or section header, add a note without ZID, paste a "
    "note with a never-indexed ZID, move a note between pages, touch a file, add / rename pages, advance the day, "
    "`db reindex` (plain or with explicit paths).  Oracle after EVERY reindex: a model remembers, per page, the "
    "text and todo state of every ZID as of the last time that page was indexed; a note is expected stamped iff "
    "its ZID is in that state, its text / kind / effective priority differ, and its (written or implied) "
    "modification date is not today.  Expected file = file before the command with exactly those first lines "
    "rewritten to prefix[ Pn] <today> ZID rest (an existing YYMMDD replaced) -- plus ZIDs for notes that lacked "
    "one; any other changed byte is a spurious change, an unchanged expected line a missed stamp.  Then index "
    "and recompiled files must agree field by field and an immediately repeated reindex must change nothing.  "
    "Non-trivial = a reindex on a day later than D0 with >= 1 expected stamp and >= 1 untouched note with ZID on "
    "the same page; distinct by SHA-1 of the history."
)
ASSUMPTIONS = [
    "'text' = the item after its kind/priority prefix, 'todo state' = kind and effective priority (what makes "
    "header-only edits stamp nothing); switching between an omitted priority and an explicit P3 is not generated",
    "clock controlled with freezegun; explicit reindex paths are absolute",
]

_ZID = r"\d{6}#[0-9A-Za-z]{2,3}"


@st.composite
def _edit_step(draw):
    sel = {"p": draw(st.integers(0, 50)), "n": draw(st.integers(0, 50))}
    k = draw(st.integers(0, 5))
    if k < 2:
        return {"op": "append_word", **sel, "w": draw(st.sampled_from(edits.WORDS))}
    if k == 2:
        return {"op": "add_bullet", **sel, "w": draw(st.sampled_from(edits.WORDS))}
    if k == 3:
        return {"op": "kind", **sel, "kind": draw(st.sampled_from(P.KINDS))}
    if k == 4:
        return {"op": "prio", **sel, "prio": draw(st.one_of(st.none(), st.integers(0, 9)))}
    return {"op": "header_tag", **sel, "w": draw(st.sampled_from(["#htag", "hk::hv"]))}


@st.composite
def _case(draw):
    step = st.one_of(edits.step(allow_break=False), _edit_step(), _edit_step(),
                     st.just({"op": "advance_day", "days": 1}), st.just({"op": "reindex"}))
    return {"dir": draw(P.directory(1, 3, rich=draw(st.booleans()), max_headers=2, all_zids=True)),
            "steps": draw(st.lists(step, min_size=4, max_size=16))}


def parse_items(text: str) -> dict:
    """zid -> {line, kind, prio (effective), stamp, text (everything after the prefix, all lines)}"""
    lines = text.split("\n")
    out = {}
    order = []
    for s, e in edits.items_of(lines):
        kind, prio, ws = edits.first_line_parts(lines[s])
        ws = [w for w in ws]
        while ws and ws[0] == "":
            ws.pop(0)
        stamp = None
        zid = None
        if ws and re.fullmatch(r"\d{6}", ws[0]) and _valid(ws[0]):
            stamp = ws[0]
            if len(ws) > 1 and re.fullmatch(_ZID, ws[1]) and _valid(ws[1][:6]):
                zid = ws[1]
        elif ws and re.fullmatch(_ZID, ws[0]) and _valid(ws[0][:6]):
            zid = ws[0]
        rec = {"line": s, "end": e, "kind": kind, "prio": (prio or ("P3" if kind != "-" else None)), "stamp": stamp,
               "zid": zid, "text": "\n".join([" ".join(ws)] + lines[s + 1:e])}
        order.append(rec)
        if zid:
            out[zid] = rec
    return out, order


def _valid(yymmdd: str) -> bool:
    from ..model.query import mdays

    m, d = int(yymmdd[2:4]), int(yymmdd[4:6])
    return 1 <= m <= 12 and 1 <= d <= mdays(2000 + int(yymmdd[:2]), m)


def stamp_line(line: str, today_short: str) -> str:
    kind, prio, ws = edits.first_line_parts(line)
    while ws and ws[0] == "":
        ws.pop(0)
    if ws and re.fullmatch(r"\d{6}", ws[0]):
        ws.pop(0)
    return " ".join([kind] + ([prio] if prio else []) + [today_short] + ws)


def check(case, rec: Rec) -> None:
    files = {}
    for rel, pg in case["dir"].items():
        files[rel] = P.render(pg, day_str(0))[0]
        if any(P.independent_parse(files[rel])[:2]):
            raise InvalidCase("page does not parse cleanly")
    nontriv = 0
    with env.sandbox("vz-c11-") as box:
        zdir = box / "org"
        zdir.mkdir()
        env.write_files(zdir, files)
        day = 0
        with env.frozen(day_str(0)):
            r = env.zorg(zdir, "db", "create")
        if r.code != 0:
            raise InvalidCase(f"db create failed: {r.out[-200:]}")
        wd = edits.Workdir(zdir)
        prev = {rel: parse_items(t)[0] for rel, t in env.read_tree(zdir).items() if rel.endswith(".zo")}
        indexed_bytes = {rel: t for rel, t in env.read_tree(zdir).items() if rel.endswith(".zo")}
        log = []
        for st_ in case["steps"] + [{"op": "reindex"}]:
            op = st_["op"]
            if op == "advance_day":
                day += st_["days"]
                log.append(f"advance to {day_str(day)}")
                continue
            if op not in ("reindex", "reindex_paths"):
                with env.frozen(day_str(day)):
                    what = wd.apply(st_, day_str(day))
                if what:
                    log.append(what)
                continue
            today = day_str(day)
            today_short = today[2:4] + today[5:7] + today[8:10]
            pages = wd.pages()
            if op == "reindex_paths":
                if not pages:
                    continue
                targets = sorted({pages[i % len(pages)] for i in st_["sel"]})
                args = ["db", "reindex"] + [str(zdir / p) for p in targets]
            else:
                targets = pages
                args = ["db", "reindex"]
            before = {rel: t for rel, t in env.read_tree(zdir).items() if rel.endswith(".zo")}
            with env.frozen(today):
                with rec.sut("db-reindex"):
                    r = env.zorg(zdir, *args)
                log.append(" ".join(args[1:]).replace(str(zdir) + "/", "") + f" on {today} -> exit {r.code}")
                hist = "history:\n  " + "\n  ".join(log)
                if r.code != 0:
                    raise Violation("reindex-failed", f"{hist}\n{r.out[-300:]}")
                after = {rel: t for rel, t in env.read_tree(zdir).items() if rel.endswith(".zo")}
                n_stamped = n_untouched = 0
                for rel in sorted(before):
                    processed = rel in targets and before[rel] != indexed_bytes.get(rel)
                    b_lines, a_lines = before[rel].split("\n"), after[rel].split("\n")
                    if len(b_lines) != len(a_lines):
                        raise Violation("line-count", f"{hist}\n{rel}: {len(b_lines)} -> {len(a_lines)} lines")
                    now, order = parse_items(before[rel])
                    expect = {}
                    if processed:
                        old = prev.get(rel, {})
                        for it in order:
                            z = it["zid"]
                            if z is None:
                                expect[it["line"]] = ("zid", it)
                                continue
                            o = old.get(z)
                            eff_mod = it["stamp"] or z[:6]
                            if o is not None and (o["text"], o["kind"], o["prio"]) != (it["text"], it["kind"], it["prio"]) \
                                    and eff_mod != today_short:
                                expect[it["line"]] = ("stamp", it)
                                n_stamped += 1
                            elif o is not None:
                                n_untouched += 1
                    for i, (x, y) in enumerate(zip(b_lines, a_lines)):
                        e = expect.get(i)
                        if e is None:
                            if x != y:
                                kind = "spurious-stamp" if re.search(r"^\S( P\d)? " + today_short + " ", y) else "spurious-change"
                                raise Violation(kind, f"{hist}\n{rel}:{i + 1}: {x!r} -> {y!r} (note not expected to change; "
                                                f"page processed: {processed})")
                        elif e[0] == "stamp":
                            want = stamp_line(x, today_short)
                            if y == x:
                                raise Violation("missed-stamp", f"{hist}\n{rel}:{i + 1}: {x!r} was edited since the page was "
                                                f"last indexed but was not stamped")
                            # (the statement does not fix the spacing inside the rewritten prefix)
                            if y.split() != want.split():
                                raise Violation("wrong-stamp", f"{hist}\n{rel}:{i + 1}: {x!r} -> {y!r}, expected {want!r}")
                        else:
                            if not re.search(r"^\S( P\d)? (\d{6} )?" + _ZID + r"( |$)", y):
                                raise Violation("zid-not-added", f"{hist}\n{rel}:{i + 1}: {x!r} -> {y!r}")
                # index: agreement with the files, stamped notes dated today
                if op == "reindex":
                    rows = agreement(zdir, sorted(after), f"{hist}\nafter reindex")
                    for rel in sorted(before):
                        if not (rel in targets and before[rel] != indexed_bytes.get(rel)):
                            continue
                # immediate second reindex stamps nothing
                with rec.sut("db-reindex-again"):
                    r2 = env.zorg(zdir, *args)
                after2 = {rel: t for rel, t in env.read_tree(zdir).items() if rel.endswith(".zo")}
                if r2.code != 0 or after2 != after:
                    ch = [k for k in after2 if after2[k] != after.get(k)]
                    raise Violation("second-reindex-changes-files", f"{hist}\nrepeated reindex (exit {r2.code}) changed {ch}")
                if op == "reindex":
                    d2 = canon(dbdump.dump(zdir))
                    rows2 = {(n["page"], n["zid"]): n for n in d2["notes"]}
                    for n in rows:
                        m = rows2.get((n["page"], n["zid"]))
                        if m is None or any(m[f] != n[f] for f in ("body", "modify", "kind", "priority")):
                            raise Violation("second-reindex-changes-index", f"{hist}\nnote {n['zid']}: {n} -> {m}")
            for rel in targets:
                if rel in after:
                    prev[rel] = parse_items(after[rel])[0]
                    indexed_bytes[rel] = after[rel]
            for rel in list(prev):
                if rel not in after:
                    prev.pop(rel)
                    indexed_bytes.pop(rel, None)
            if day > 0 and n_stamped >= 1 and n_untouched >= 1:
                nontriv += 1
            if n_stamped:
                rec.label("stamped")
            rec.info["stamps"] = rec.info.get("stamps", 0) + n_stamped
    rec.info["skipped_edits"] = wd.skipped
    rec.nontrivial = nontriv >= 1


REQUIRED_LABELS = {"stamped": 0.3}


def sample_view(case):
    return f"{len(case['dir'])} pages {sorted(case['dir'])}; steps: " + "; ".join(
        s["op"] + "".join(f" {k}={v}" for k, v in s.items() if k not in ("op", "p", "n")) for s in case["steps"])


def parts(tier):
    quick = tier == "quick"
    return [HypPart(name="history", check=check, strategy=_case,
                    examples=10 if quick else 300, seconds=50 if quick else 600)]
