"""C03 -- a WHERE filter returns exactly the indexed notes that satisfy it."""

from __future__ import annotations

from hypothesis import strategies as st

from .. import env
from ..driver import HypPart, InvalidCase, Rec, Violation
from ..gen import index as G
from ..model import dbdump, eval3
from ..model import page as P
from ..model import query as Q

ID = "C03"
LEVEL = "exploration"
RULE = (
    "Hypothesis draws a notes directory of 2-4 pages (names that are prefixes of / differ by one character "
    "from / contain '_' of one another, a sub-directory; 2-6 notes each, all kinds and priorities, tags, links of "
    "every kind incl. [[p#a]], [#id], [@rid], [ZID] pointing at notes that carry ID::/RID::, integer / date / "
    "string / non-conforming property values, bodies with the literal characters % _ \\ ' and mixed case, title "
    "and section-header tags), indexes it with the real `db create` on a frozen day, then 10 filter trees (depth "
    "<= 3, every atom kind, every comparison operator, ! on every negatable atom, | and parentheses) over the "
    "same small pools plus near-misses.  Oracle: the set of ZIDs returned by "
    "repo.get_notes_by_query(build_zorg_query(text).where) must contain every row our three-valued evaluator "
    "makes True and no row it makes False, the rows being read with sqlite3 (rows with verdict Unknown -- "
    "unspecified date/integer coercions -- are not compared, and counted).  On the engine's own answers the set "
    "laws result((a) | (b)) = result(a) U result(b), result((a) (b)) = result(a) n result(b) and, for single "
    "complementable atoms, result(!x) = universe - result(x) are checked as well.  Non-trivial = a query whose result "
    "is neither empty nor everything, or that contains a negation / comparison / a literal % _ \\; distinct by "
    "SHA-1 of (directory, query)."
)
ASSUMPTIONS = [
    "page names and globs are lower-case (LIKE case-folding of f= is unspecified)",
    "query texts avoid the input classes of the C04 known findings (lexer defects), so that the filter reaching "
    "the SQL layer is the one written",
    "every note has a distinct ZID (the repository maps rows back to notes by ZID)",
]


@st.composite
def _case(draw):
    return {"dir": draw(G.directory()), "today": draw(st.sampled_from(G.TODAYS)),
            "queries": [draw(G.hit_or(0, 2)) for _ in range(10)]}


def build_index(case, zdir, rec):
    files = {}
    for rel, pg in case["dir"].items():
        files[rel] = P.render(pg, case["today"])[0]
        if any(P.independent_parse(files[rel])[:2]):
            raise InvalidCase("page does not parse cleanly:\n" + files[rel])
    env.write_files(zdir, files)
    with rec.sut("db-create"):
        r = env.zorg(zdir, "db", "create")
    if r.code != 0:
        raise InvalidCase(f"db create failed: {r.out[-200:]}")
    return dbdump.dump(zdir)["notes"]


def run_where(zdir, text, rec):
    from zorg.service.compiler import build_zorg_query
    from zorg.storage.sql import SQLSession

    env.fresh_process()
    try:
        with rec.sut("query"):
            q = build_zorg_query(text)
            with SQLSession(zdir, env.db_url(zdir)) as session:
                notes = session.repo.get_notes_by_query(q.where)
                return [n.zid for n in notes]
    finally:
        env.fresh_process()


def _special(o) -> bool:
    for a in Q.walk_atoms(o):
        if a.get("neg") or (a["t"] == "prop" and a["op"] != "exists"):
            return True
        if a["t"] == "desc" and any(c in a["text"] for c in "%_\\"):
            return True
        if a["t"] == "file" and "_" in Q.glob_text(a):
            return True
    return False


def check(case, rec: Rec) -> None:
    today = tuple(int(x) for x in case["today"].split("-"))
    nontriv = 0
    with env.sandbox("vz-c03-") as box, env.frozen(case["today"]):
        zdir = box / "org"
        zdir.mkdir()
        rows = build_index(case, zdir, rec)
        universe = {r["zid"] for r in rows}
        ctx = {"today": today, "rows": rows}
        results = []
        for qi, o in enumerate(case["queries"]):
            text = "W " + Q.render_or(o)
            errs = Q.syntax_errors(text)
            if errs and not Q.has_tolerated_syntax(o):
                raise InvalidCase(f"query not well-formed: {text!r}: {errs[:1]}")
            got = run_where(zdir, text, rec)
            if len(got) != len(set(got)):
                raise Violation("duplicate-result", f"{text!r} returned {got}")
            got = set(got)
            must, mustnot, unknown = set(), set(), set()
            for r in rows:
                v = eval3.ev_or(o, r, ctx)
                (must if v is True else mustnot if v is False else unknown).add(r["zid"])
            missing, extra = must - got, got & mustnot
            if missing or extra or not got <= universe:
                kinds = sorted({a["t"] + ("!" if a.get("neg") else "") for a in Q.walk_atoms(o)})
                sig = "+".join(kinds) if len(kinds) <= 2 else "multi"
                by = {r["zid"]: r for r in rows}
                ex = by[sorted(missing or extra)[0]]
                raise Violation(("missing:" if missing else "extra:") + sig,
                                f"{text!r} on {case['today']}: missing {sorted(missing)}, wrongly returned "
                                f"{sorted(extra)}\nexample row: page={ex['page']} kind={ex['kind']} prio={ex['priority']} "
                                f"create={ex['create']} modify={ex['modify']} tags={ex['areas'] + ex['contexts'] + ex['people'] + ex['projects']} "
                                f"links={ex['links']} props={ex['props']}\nbody={ex['body']!r}",
                                case={"dir": case["dir"], "today": case["today"], "queries": [o]})
            rec.info["unknown_rows"] = rec.info.get("unknown_rows", 0) + len(unknown)
            rec.info["rows_compared"] = rec.info.get("rows_compared", 0) + len(rows) - len(unknown)
            rec.info["queries"] = rec.info.get("queries", 0) + 1
            if (got and got != universe) or _special(o):
                nontriv += 1
            for a in Q.walk_atoms(o):
                rec.label("atom:" + a["t"] + ("!" if a.get("neg") else ""))
            if got and got != universe:
                rec.label("selective-result")
            results.append((o, got))
        # metamorphic set laws on the engine's own answers (independent of our evaluator)
        for (o1, g1), (o2, g2) in list(zip(results, results[1:]))[:3]:
            t1, t2 = Q.render_or(o1), Q.render_or(o2)
            for text, want, law in ((f"W ({t1}) | ({t2})", g1 | g2, "union"), (f"W ({t1}) ({t2})", g1 & g2, "intersection")):
                if Q.syntax_errors(text) and not (Q.has_tolerated_syntax(o1) | Q.has_tolerated_syntax(o2)):
                    continue
                got = set(run_where(zdir, text, rec))
                if got != want:
                    raise Violation("set-law:" + law, f"{text!r} returns {sorted(got)}, but its operands return "
                                    f"{sorted(g1)} and {sorted(g2)}",
                                    case={"dir": case["dir"], "today": case["today"], "queries": [o1, o2]})
                rec.info["set_law_checks"] = rec.info.get("set_law_checks", 0) + 1
        for o, g in results[:4]:
            atoms = [a for af in o["ands"] for a in af["atoms"]]
            if len(atoms) == 1 and "neg" in atoms[0] and not (atoms[0]["t"] == "prop" and atoms[0]["op"] != "exists"):
                flipped = {"ands": [{"atoms": [dict(atoms[0], neg=not atoms[0]["neg"])]}]}
                got = set(run_where(zdir, "W " + Q.render_or(flipped), rec))
                if got != universe - g:
                    raise Violation("set-law:complement", f"{Q.render_or(o)!r} returns {sorted(g)}, its negation "
                                    f"{sorted(got)}, universe {sorted(universe)}",
                                    case={"dir": case["dir"], "today": case["today"], "queries": [o, flipped]})
                rec.info["set_law_checks"] = rec.info.get("set_law_checks", 0) + 1
    rec.info["nontrivial_queries"] = nontriv
    rec.nontrivial = nontriv >= 1


REQUIRED_LABELS = {"selective-result": 0.5, "atom:link": 0.3, "atom:link!": 0.2, "atom:desc!": 0.3, "atom:file": 0.3,
                   "atom:prop": 0.5, "atom:sub": 0.3}


def sample_view(case):
    pages = "\n".join(f"--- {rel}\n{P.render(pg, case['today'])[0]}" for rel, pg in case["dir"].items())
    return pages + "\nqueries:\n" + "\n".join("W " + Q.render_or(o) for o in case["queries"])


def parts(tier):
    from ..engine import load_findings

    Q.set_open({f["key"] for f in load_findings("C04") + load_findings(ID) if f.get("status") == "known"})
    quick = tier == "quick"
    return [HypPart(name="where", check=check, strategy=_case,
                    examples=30 if quick else 800, seconds=55 if quick else 600)]
