"""C14 -- `file rename` retargets every link to the page and nothing else."""

from __future__ import annotations

from pathlib import Path

from hypothesis import strategies as st

from .. import env
from ..driver import HypPart, InvalidCase, Rec, Violation

ID = "C14"
LEVEL = "exploration"
RULE = (
    "Hypothesis draws a notes directory (.zo / .zot / .zoq / other files in 0-2 sub-directories), "
    "a page A (optionally in a sub-directory, given with or without the .zo suffix), a fresh name B in "
    "an existing directory, and plants in every file lines mixing true links [[A]] / [[A#anchor]] "
    "(also inside A itself, adjacent to punctuation, several per line, in files whose last line has no newline) with decoys whose names contain, "
    "extend, prefix, suffix or case-vary A ([[Ax]], [[xA]], [[A/x]], [[x/A]], [[A.x]], [[A_]], [#A], [^A], "
    "bare A, [[B]]).  Oracle: a token-level rewrite model (scan for [[target]], split at '#', rewrite iff "
    "base == A) gives the expected bytes of every file; A.zo must be gone, B.zo must hold A's rewritten "
    "content, no other file may appear, disappear or change; compiled link sets of the .zo pages must "
    "differ exactly by A->B; a second identical tree without any rename is the control.  Non-trivial = at "
    "least one true link and two decoys spread over >= 2 files including a non-.zo file; distinct by SHA-1."
)
ASSUMPTIONS = [
    "page and directory names come from the identifier alphabet (no dots in directory parts: caller precondition of run_file_rename)",
    "LF line endings; B does not exist yet and its directory does",
    "malformed bracket runs such as '[[A]' without the second ']' are not links and are not generated",
]

P_MARK = "#" * 32

_ID = st.text("abcdefghijklmnopqrstuvwxyz", min_size=1, max_size=1).flatmap(
    lambda c: st.text("abcdefghijklmnopqrstuvwxyz0123456789_", max_size=4).map(lambda r: c + r))
_ANCHOR = st.sampled_from(["top", "a1", "sec_2", "x", "Goals"])
_FILLER = st.sampled_from(["see", "and", "the", "note", "about", "(draft)", "x", "o", "P1", "done.", "#tag", "@home",
                           "k::v", "2024-01-02", "'quoted", "words'"])


def _decoys(a: str, b: str):
    base = a.split("/")[-1]
    d = a[: -len(base)]
    out = [
        f"[[{a}x]]", f"[[x{a}]]", f"[[{a}/x]]", f"[[x/{a}]]", f"[[{a}.x]]", f"[[{a}_]]", f"[[{a}2]]",
        f"[[{a.upper()}]]" if a.upper() != a else f"[[{a}A]]",
        f"[[{d}{base.capitalize()}]]" if base.capitalize() != base else f"[[{a}B]]",
        f"[#{base}]", f"[^{base}]", a, f"{a}]]", f"[{a}]", f"[[{b}]]", f"[[{b}#top]]",
        f"[[{base}{base}]]", f"[[{a}x#top]]", f"(({a}))", f"[@{base}]",
    ]
    if "/" in a:
        out += [f"[[{base}]]", f"[[{base}#top]]"]
    else:
        out += [f"[[sub/{a}]]"]
    return out


@st.composite
def _case(draw):
    dirs = draw(st.lists(_ID, min_size=0, max_size=2, unique=True))
    a_dir = draw(st.sampled_from([""] + [d + "/" for d in dirs]))
    b_dir = draw(st.sampled_from([""] + [d + "/" for d in dirs]))
    a_base = draw(_ID)
    b_base = draw(_ID.filter(lambda x: x != a_base))
    a, b = a_dir + a_base, b_dir + b_base
    decoys = _decoys(a, b)

    def line():
        words = []
        for _ in range(draw(st.integers(1, 7))):
            k = draw(st.integers(0, 9))
            if k < 3:
                w = f"[[{a}]]" if draw(st.booleans()) else f"[[{a}#{draw(_ANCHOR)}]]"
                w = draw(st.sampled_from(["", "(", "'", "see:"])) + w + draw(st.sampled_from(["", ")", ",", ".", "'", "!", "?"]))
            elif k < 7:
                w = draw(st.sampled_from(decoys))
            else:
                w = draw(_FILLER)
            words.append(w)
        kind = draw(st.sampled_from(["- ", "o ", "x ", "  * ", "# ", "- "]))
        return kind + " ".join(words)

    def content(ext):
        head = "# " + draw(st.sampled_from(["Title", "T [[%s]]" % a, "Page +prj", "T [[%sx]]" % a]))
        body = [line() for _ in range(draw(st.integers(0, 6)))]
        # bullets need a parent item
        fixed = []
        for ln in body:
            if ln.startswith("  * ") and not (fixed and (fixed[-1].startswith(("- ", "o ", "x ", "  * ")))):
                ln = "- " + ln[4:]
            if ln.startswith("# "):
                ln = "- " + ln[2:]
            fixed.append(ln)
        text = head + "\n\n" + "\n".join(fixed) + ("\n" if fixed else "")
        if draw(st.integers(0, 3)) == 0:
            # last line without newline: a page may end in a section header, a query page / template in anything
            if ext == "zo":
                text += P_MARK + " Links [[%s]] [[%sx]]" % (a, a) if draw(st.booleans()) else P_MARK + " End"
            else:
                text = text.rstrip("\n") if text.strip("\n") else text
        return text

    files = {a + ".zo": content("zo")}
    taken = {a + ".zo", b + ".zo"}
    for _ in range(draw(st.integers(1, 6))):
        d = draw(st.sampled_from([""] + [x + "/" for x in dirs]))
        name = draw(_ID)
        ext = draw(st.sampled_from(["zo", "zo", "zo", "zot", "zoq", "txt", "md"]))
        rel = f"{d}{name}.{ext}"
        if rel in taken:
            continue
        taken.add(rel)
        files[rel] = content(ext)
    return {
        "files": files, "a": a, "b": b, "dirs": dirs,
        "a_arg": a + draw(st.sampled_from(["", ".zo"])),
        "b_arg": b + draw(st.sampled_from(["", ".zo"])),
    }


def model_rewrite(text: str, a: str, b: str):
    """Token-level model: returns (expected text, #true links, #link tokens that stay)."""
    out = []
    i = 0
    n_true = n_other = 0
    while i < len(text):
        if text.startswith("[[", i):
            j = i + 2
            while j < len(text) and text[j] not in "[]\n":
                j += 1
            if text.startswith("]]", j) and j > i + 2:
                target = text[i + 2:j]
                base, sep, anchor = target.partition("#")
                if base == a:
                    out.append("[[" + b + sep + anchor + "]]")
                    n_true += 1
                else:
                    out.append(text[i:j + 2])
                    n_other += 1
                i = j + 2
                continue
        out.append(text[i])
        i += 1
    return "".join(out), n_true, n_other


def _links(zdir: Path, rel: str):
    from zorg.service.compiler import walk_zorg_page

    try:
        page = walk_zorg_page(zdir, Path(rel))
    except Exception:  # noqa: BLE001  (compiler crashes are C08's business)
        return None
    if page.has_errors:
        return None
    return [sorted(n.links) for n in page.notes]


def check(case, rec: Rec) -> None:
    a, b = case["a"], case["b"]
    files = case["files"]
    expected = {}
    n_true = n_dec = 0
    files_with_true = set()
    for rel, text in files.items():
        if rel.endswith((".zo", ".zot", ".zoq")):
            new, t, o = model_rewrite(text, a, b)
            n_true += t
            if t:
                files_with_true.add(rel)
        else:
            new = text
        dec = sum(text.count(d) for d in set(_decoys(a, b)))
        n_dec += dec
        expected[b + ".zo" if rel == a + ".zo" else rel] = new
    with env.sandbox("vz-c14-") as box:
        zdir = box / "org"
        zdir.mkdir()
        for d in case["dirs"]:
            (zdir / d).mkdir(exist_ok=True)
        env.write_files(zdir, files)
        links_before = {}
        with env.frozen("2024-05-05"):
            for rel in files:
                if rel.endswith(".zo"):
                    links_before[rel] = _links(zdir, rel)
            with rec.sut("file-rename"):
                r = env.zorg(zdir, "file", "rename", case["a_arg"], case["b_arg"])
            if r.code != 0:
                raise Violation("exit-code", f"file rename {case['a_arg']} {case['b_arg']} exited {r.code}: {r.out[-300:]}")
            got = env.read_tree(zdir)
            if a + ".zo" in got:
                raise Violation("old-name-still-exists", f"{a}.zo still present after rename")
            if b + ".zo" not in got:
                raise Violation("new-name-missing", f"{b}.zo missing; files: {sorted(got)}")
            if set(got) != set(expected):
                raise Violation("file-set", f"files created/removed: got {sorted(got)}, expected {sorted(expected)}")
            for rel in sorted(expected):
                if got[rel] != expected[rel]:
                    raise Violation(
                        "bytes:" + ("non-zfile" if not rel.endswith((".zo", ".zot", ".zoq")) else
                                    "renamed-page" if rel == b + ".zo" else rel.rsplit(".", 1)[1]),
                        f"{rel}: rename {a}->{b}\n--- expected\n{expected[rel]}\n--- got\n{got[rel]}")
            # compiled link sets differ exactly by A -> B
            for rel, before in links_before.items():
                if before is None:
                    continue
                new_rel = b + ".zo" if rel == a + ".zo" else rel
                after = _links(zdir, new_rel)
                if after is None:
                    raise Violation("page-broken", f"{new_rel} has syntax errors after the rename")

                def tr(l):
                    base, sep, anc = l.partition("#")
                    return b + sep + anc if base == a else l
                exp_links = [sorted({tr(l) for l in ls}) for ls in before]
                if after != exp_links:
                    raise Violation("compiled-links", f"{new_rel}: links {after}, expected {exp_links}")
                rec.label("compiled-links-checked")
    if "/" in a:
        rec.label("A-in-subdir")
    if a.split("/")[0] != b.split("/")[0] or ("/" in a) != ("/" in b):
        rec.label("moved-directory")
    if (a + ".zo") in files_with_true:
        rec.label("self-link")
    if any(not t.endswith("\n") for r_, t in files.items() if r_ in files_with_true):
        rec.label("rewritten-file-without-final-newline")
    nonzo = [f for f in files_with_true if not f.endswith(".zo")]
    if nonzo:
        rec.label("true-link-in-zot/zoq")
    rec.nontrivial = n_true >= 1 and n_dec >= 2 and len(files) >= 2 and bool(nonzo or len(files_with_true) >= 2)


REQUIRED_LABELS = {"rewritten-file-without-final-newline": 0.05, "self-link": 0.05, "true-link-in-zot/zoq": 0.05, "A-in-subdir": 0.05}


def sample_view(case):
    return f"rename {case['a_arg']} -> {case['b_arg']}\n" + "\n".join(f"--- {rel}\n{t}" for rel, t in case["files"].items())


def parts(tier):
    return [HypPart(name="rename", check=check, strategy=_case,
                    examples=90 if tier == "quick" else 3000,
                    seconds=45 if tier == "quick" else 600)]
