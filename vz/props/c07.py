"""C07 -- ZIDs are unique, well-formed and recognised by every component."""

from __future__ import annotations

import datetime as dt
import itertools
import json
import re
from pathlib import Path

from hypothesis import strategies as st

from .. import env
from ..driver import EnumPart, HypPart, InvalidCase, Rec, SutHang, Violation, watchdog

ID = "C07"
LEVEL = "exploration"
RULE = (
    "(chain) the complete successor chain of ID suffixes is walked through the real "
    "successor function and compared element by element with an independently built chain "
    "(odometer over 0-9A-Za-z minus the 11 look-alike characters, lengths 2 then 3: 135,252 "
    "suffixes) [exhaustive]; (lex) every one of those ZIDs is lexed by both generated lexers and "
    "tested with is_zid [exhaustive]; (compile) ZIDs are planted as the own ZID of notes (plain "
    "note / todo with priority and modify date) in batches of 400 per page and recompiled "
    "(thorough: every suffix; quick: every roll-over neighbourhood + a stride sample); "
    "(alloc) Hypothesis histories of allocate(date) / restart / fast-forward-to-position steps "
    "over 4 dates against a model counter; (machine) the same "
    "model driven by Hypothesis' stateful mode (a RuleBasedStateMachine with allocate / restart / fast_forward "
    "rules, 16 seeded runs), a failing rule sequence being saved as an ordinary step-list replay. "
    "Non-trivial = a chunk containing a roll-over (9->A, Z->a, skipped letter, carry, 2->3 "
    "extension) or a history with an allocation after a restart or across a carry; distinct "
    "by SHA-1 of the case."
)
ASSUMPTIONS = [
    "fast-forward steps write .zorg/next_ids.json directly to reach deep chain positions "
    "(the thorough tier additionally walks one full date through real get_next calls)",
    "dates are between 2000-01-01 and 2099-12-31 (two-digit year of the ZID form)",
]
EXPLANATION = "chain and lexer parts are exhaustive over the finite suffix space; alloc histories are sampled"

_EXCLUDED = "IOQSgijlpqy"
_ALPHABET = [c for c in "0123456789ABCDEFGHIJKLMNOPQRSTUVWXYZabcdefghijklmnopqrstuvwxyz"
             if c not in _EXCLUDED]
_CHAIN = None


def chain():
    global _CHAIN
    if _CHAIN is None:
        _CHAIN = ["".join(t) for t in itertools.product(_ALPHABET, repeat=2)] + \
                 ["".join(t) for t in itertools.product(_ALPHABET, repeat=3)]
    return _CHAIN


N_TOTAL = 51 * 51 + 51 ** 3
_ZID_RE = re.compile(r"^\d{6}#[0-9A-Za-z]{2,3}$")

# ------------------------------------------------------------------ chain


def check_chain(case, rec: Rec) -> None:
    from zorg.storage.sql import _zid_manager as zm

    model = chain()
    assert len(model) == N_TOTAL == 135252
    cur = "00"
    seen = 0
    prev = None
    with rec.sut("successor"):
        while True:
            if seen >= len(model):
                raise Violation("chain-too-long", f"successor of {prev!r} exists: {cur!r}")
            if cur != model[seen]:
                raise Violation("chain-order", f"position {seen}: got {cur!r}, expected {model[seen]!r} (after {prev!r})")
            seen += 1
            prev = cur
            try:
                cur = zm._get_next_id(cur)
            except RuntimeError as e:
                if "Ran out of zorg IDs" not in str(e):
                    raise Violation("exhaustion-error", f"unexpected error text {e!r}")
                break
    if seen != N_TOTAL:
        raise Violation("chain-length", f"chain ended after {seen} suffixes at {prev!r}, expected {N_TOTAL}")
    rec.nontrivial = True
    rec.label("full-chain")


# ------------------------------------------------------------------ lex

_NCHUNK = 128


def _chunk(i):
    m = chain()
    per = (len(m) + _NCHUNK - 1) // _NCHUNK
    return m[i * per:(i + 1) * per]


def _lex_all(lexer_cls, text):
    import antlr4

    lx = lexer_cls(antlr4.InputStream(text))
    lx.removeErrorListeners()
    toks = []
    while True:
        t = lx.nextToken()
        if t.type == -1:
            break
        toks.append(t)
    return toks


def check_lex(case, rec: Rec) -> None:
    from zorg.grammar.zorg_file.ZorgFileLexer import ZorgFileLexer
    from zorg.grammar.zorg_query.ZorgQueryLexer import ZorgQueryLexer
    from zorg.shared import dates as zdt

    date = case["date"]
    sufs = _chunk(case["chunk"])
    for lexer_cls, name in ((ZorgFileLexer, "file"), (ZorgQueryLexer, "query")):
        zid_type = lexer_cls.ZID
        # one token stream per chunk: ZIDs separated by single spaces
        text = " ".join(f"{date}#{s}" for s in sufs)
        with rec.sut(f"lex-{name}"):
            toks = [t for t in _lex_all(lexer_cls, text) if t.text != " "]
        if len(toks) != len(sufs):
            # find the first offender
            for s in sufs:
                z = f"{date}#{s}"
                tt = _lex_all(lexer_cls, z)
                if len(tt) != 1 or tt[0].type != zid_type or tt[0].text != z:
                    raise Violation(f"lex-{name}", f"{z!r} lexes as {[(t.type, t.text) for t in tt]}")
            raise Violation(f"lex-{name}", "token count mismatch in chunk")
        for t, s in zip(toks, sufs):
            if t.type != zid_type or t.text != f"{date}#{s}":
                raise Violation(f"lex-{name}", f"{date}#{s!r} lexes as ({t.type}, {t.text!r}), ZID type is {zid_type}")
    for s in sufs:
        z = f"{date}#{s}"
        with rec.sut("is_zid"):
            ok = zdt.is_zid(z)
        if not ok:
            raise Violation("is_zid", f"is_zid({z!r}) is False")
        if not _ZID_RE.match(z) or any(c in _EXCLUDED for c in s):
            raise Violation("form", f"{z!r} malformed")
    rec.nontrivial = _has_rollover(sufs)
    rec.label("lex-chunk")


def _has_rollover(sufs):
    for a, b in zip(sufs, sufs[1:]):
        if len(a) != len(b) or a[:-1] != b[:-1]:
            return True
        if ord(b[-1]) - ord(a[-1]) != 1:
            return True
    return False


# ------------------------------------------------------------------ compile

_BATCH = 400


def check_compile(case, rec: Rec) -> None:
    from zorg.service.compiler import walk_zorg_page

    m = chain()
    sufs = m[case["start"]:case["start"] + _BATCH]
    date = case["date"]
    lines = ["# batch", ""]
    exp = []
    for i, s in enumerate(sufs):
        z = f"{date}#{s}"
        form = (i + case["form"]) % 4
        if form == 0:
            lines.append(f"- {z} body word{i}")
        elif form == 1:
            lines.append(f"o P1 240102 {z} body word{i}")
        elif form == 2:
            lines.append(f"x {z} body [[link{i}]]\n  * bullet {i}")
        else:
            lines.append(f"- 991231 {z} #tag{i} body")
        exp.append(z)
    text = "\n".join(lines) + "\n"
    with env.sandbox("vz-c07-") as box:
        (box / "p.zo").write_text(text)
        with env.frozen("2024-06-01"):
            with rec.sut("compile"):
                page = walk_zorg_page(box, Path("p.zo"))
                notes = page.notes
    if page.has_errors:
        raise Violation("compile-errors", f"page with ZIDs {exp[0]}..{exp[-1]} has syntax errors")
    if len(notes) != len(exp):
        raise Violation("compile-count", f"{len(notes)} notes for {len(exp)} items")
    yy, mm, dd = int(date[:2]), int(date[2:4]), int(date[4:6])
    for n, z in zip(notes, exp):
        if n.zid != z:
            raise Violation("own-zid-not-recognised",
                            f"item written with ZID {z!r} compiled with zid={n.zid!r} (body {n.body[:40]!r})")
        if n.create_date != dt.date(2000 + yy, mm, dd):
            raise Violation("zid-create-date", f"{z}: create_date {n.create_date}")
    rec.nontrivial = _has_rollover(sufs)
    rec.label("3char" if len(sufs[-1]) == 3 else "2char")


def _compile_items(tier):
    starts = list(range(0, N_TOTAL, _BATCH))
    if tier == "quick":
        keep = set(starts[:8]) | set(starts[-3:]) | set(starts[::12])
        starts = sorted(keep)
    dates = ["240101", "991231", "000229", "301130"]
    return [{"start": s, "date": dates[i % len(dates)], "form": i % 4} for i, s in enumerate(starts)]


# ------------------------------------------------------------------ allocation histories

_DATES = ["2024-01-01", "2024-12-31", "2000-02-29", "2099-12-31"]
_SPECIAL = None


def _special_positions():
    """Chain positions just before something interesting happens."""
    global _SPECIAL
    if _SPECIAL is None:
        m = chain()
        out = set()
        for i in range(len(m) - 1):
            a, b = m[i], m[i + 1]
            if len(a) != len(b) or a[:-1] != b[:-1]:
                out.add(i)
        # char-class roll-overs in the last position (first occurrences only)
        for i in range(0, 60):
            out.add(i)
        out |= {2599, 2600, 2601, 2602, N_TOTAL - 3, N_TOTAL - 2, N_TOTAL - 1}
        _SPECIAL = sorted(out)
    return _SPECIAL


@st.composite
def _history(draw):
    sp = _special_positions()
    steps = []
    n = draw(st.integers(2, 30))
    for _ in range(n):
        k = draw(st.integers(0, 9))
        if k < 6:
            steps.append({"op": "alloc", "date": draw(st.integers(0, 3))})
        elif k < 8:
            steps.append({"op": "restart"})
        else:
            pos = draw(st.sampled_from(sp)) if draw(st.booleans()) else draw(st.integers(0, N_TOTAL - 1))
            back = draw(st.integers(0, 3))
            steps.append({"op": "ff", "date": draw(st.integers(0, 3)), "pos": max(0, pos - back)})
    return {"steps": steps}


class AllocModel:
    """Model counter beside the real ZIDManager; `apply(step)` raises Violation on disagreement."""

    def __init__(self, zdir, rec):
        self.zdir, self.rec = zdir, rec
        self.mgr = None
        self.idx = {}
        self.handed = set()
        self.restarted = True
        self.nontrivial = False
        self.path = zdir / ".zorg" / "next_ids.json"
        self.n = 0

    def apply(self, st_):
        from zorg.storage.sql._zid_manager import ZIDManager

        m = chain()
        rec, zdir, path = self.rec, self.zdir, self.path
        si = self.n
        self.n += 1
        op = st_["op"]
        if op == "restart":
            self.mgr = None
            self.restarted = True
            return
        d = dt.date.fromisoformat(_DATES[st_["date"]])
        key = d.strftime("%y%m%d")
        if op == "ff":
            pos = st_["pos"]
            if pos <= self.idx.get(key, 0):
                return
            (zdir / ".zorg").mkdir(exist_ok=True)
            cur = json.loads(path.read_text()) if path.exists() else {}
            cur[key] = m[pos]
            path.write_text(json.dumps(cur, indent=4))
            self.idx[key] = pos
            self.mgr = None
            self.restarted = True
            return
        if self.mgr is None:
            with rec.sut("ZIDManager"):
                self.mgr = ZIDManager(zdir)
        pos = self.idx.get(key, 0)
        if pos >= len(m):
            try:
                with watchdog():
                    got = self.mgr.get_next(d)
            except SutHang:
                raise Violation("hang:get_next", f"step {si}: allocation #{pos + 1} on {key} did not return")
            except RuntimeError as e:
                if "Ran out of zorg IDs" not in str(e):
                    raise Violation("exhaustion-error", f"step {si}: {e!r}")
                rec.label("exhausted")
                return
            except BaseException as e:  # noqa: BLE001
                raise Violation("exhaustion-error", f"step {si}: {type(e).__name__}: {e}")
            raise Violation("exhaustion-silent", f"step {si}: allocation #{pos + 1} on {key} returned {got!r}")
        try:
            with watchdog():
                got = self.mgr.get_next(d)
        except SutHang:
            raise Violation("hang:get_next", f"step {si}: allocation #{pos + 1} on {key} did not return")
        except RuntimeError as e:
            raise Violation("premature-exhaustion",
                            f"step {si}: allocation #{pos + 1} of {N_TOTAL} on {key} "
                            f"(suffix {m[pos]!r} never handed out) raised {e}")
        except BaseException as e:  # noqa: BLE001
            raise Violation(f"crash:get_next:{type(e).__name__}", f"step {si}: {e}")
        exp = f"{key}#{m[pos]}"
        if got in self.handed:
            raise Violation("duplicate-zid", f"step {si}: {got!r} handed out twice")
        if got != exp:
            raise Violation("wrong-zid", f"step {si}: got {got!r}, model says {exp!r}")
        if not _ZID_RE.match(got) or any(c in _EXCLUDED for c in got[7:]):
            raise Violation("form", f"step {si}: {got!r}")
        self.handed.add(got)
        self.idx[key] = pos + 1
        if self.restarted and len(self.handed) > 1:
            self.nontrivial = True
            rec.label("alloc-after-restart")
        self.restarted = False
        if pos + 1 < len(m) and (len(m[pos]) != len(m[pos + 1]) or m[pos][:-1] != m[pos + 1][:-1]):
            self.nontrivial = True
            rec.label("carry")
        if pos == 2600:
            rec.label("2->3 extension")


def check_alloc(case, rec: Rec) -> None:
    with env.sandbox("vz-c07a-") as zdir:
        model = AllocModel(zdir, rec)
        for st_ in case["steps"]:
            model.apply(st_)
        rec.nontrivial = model.nontrivial


def check_machine(case, rec: Rec) -> None:
    """The same histories driven by Hypothesis' stateful mode (RuleBasedStateMachine)."""
    import os
    import shutil
    import tempfile

    import hypothesis
    from hypothesis import HealthCheck, settings
    from hypothesis.stateful import RuleBasedStateMachine, invariant, rule, run_state_machine_as_test

    sp = _special_positions()
    last = {"log": None, "runs": 0, "nontrivial": 0}

    class ZidMachine(RuleBasedStateMachine):
        def __init__(self):
            super().__init__()
            self.dir = Path(tempfile.mkdtemp(prefix="vz-c07m-", dir=env._TMP_ROOT))
            self.model = AllocModel(self.dir, rec)
            self.log = []
            last["log"] = self.log
            last["runs"] += 1

        def _do(self, st_):
            self.log.append(st_)
            self.model.apply(st_)

        @rule(date=st.integers(0, 3))
        def allocate(self, date):
            self._do({"op": "alloc", "date": date})

        @rule()
        def restart(self):
            self._do({"op": "restart"})

        @rule(date=st.integers(0, 3), pos=st.one_of(st.sampled_from(sp), st.integers(0, N_TOTAL - 1)),
              back=st.integers(0, 3))
        def fast_forward(self, date, pos, back):
            self._do({"op": "ff", "date": date, "pos": max(0, pos - back)})

        @invariant()
        def handed_out_are_unique_and_well_formed(self):
            assert all(_ZID_RE.match(z) for z in self.model.handed)

        def teardown(self):
            if self.model.nontrivial:
                last["nontrivial"] += 1
            shutil.rmtree(self.dir, ignore_errors=True)

    seed = int(os.environ.get("VERIF_SEED", "1") or "1") * 1000 + case["shard"]
    try:
        run_state_machine_as_test(
            hypothesis.seed(seed)(ZidMachine),
            settings=settings(max_examples=case["examples"], stateful_step_count=case["steps"], deadline=None,
                              database=None, report_multiple_bugs=False, suppress_health_check=list(HealthCheck)))
    except Violation as v:
        raise Violation(v.clause, v.detail, case={"steps": list(last["log"] or [])}, part="alloc")
    rec.sub_evals += max(0, last["runs"] - 1)
    rec.info["machine_runs"] = last["runs"]
    rec.nontrivial = last["nontrivial"] > 0
    rec.label("stateful-machine")


def check_full_walk(case, rec: Rec) -> None:
    """One date, every suffix, through real get_next calls with a restart every `every` calls."""
    from zorg.storage.sql._zid_manager import ZIDManager

    m = chain()
    d = dt.date.fromisoformat(case["date"])
    key = d.strftime("%y%m%d")
    with env.sandbox("vz-c07w-") as zdir:
        mgr = ZIDManager(zdir)
        seen = set()
        for pos in range(case.get("limit", len(m))):
            if pos % case["every"] == 0:
                mgr = ZIDManager(zdir)
            try:
                with watchdog():
                    got = mgr.get_next(d)
            except SutHang:
                raise Violation("hang:get_next", f"allocation #{pos + 1} on {key} did not return")
            except RuntimeError as e:
                raise Violation("premature-exhaustion",
                                f"allocation #{pos + 1} of {N_TOTAL} on {key} (suffix {m[pos]!r}) raised {e}")
            if got != f"{key}#{m[pos]}" or got in seen:
                raise Violation("wrong-zid", f"allocation #{pos + 1}: got {got!r}, expected {key}#{m[pos]}")
            seen.add(got)
        if case.get("limit", len(m)) == len(m):
            try:
                with watchdog():
                    got = mgr.get_next(d)
            except SutHang:
                raise Violation("hang:get_next", f"allocation #{len(m) + 1} on {key} did not return")
            except RuntimeError as e:
                if "Ran out of zorg IDs" not in str(e):
                    raise Violation("exhaustion-error", repr(e))
            else:
                raise Violation("exhaustion-silent", f"allocation #{len(m) + 1} returned {got!r}")
    rec.nontrivial = True
    rec.label("full-walk")


def known_class(case) -> set:
    return set()


def parts(tier):
    ps = [
        EnumPart(name="chain", check=check_chain, items=lambda: [{"kind": "chain"}]),
        EnumPart(name="lex", check=check_lex,
                 items=lambda: [{"chunk": i, "date": ["240101", "991231", "000229", "301130"][i % 4]}
                                for i in range(_NCHUNK)]),
        EnumPart(name="compile", check=check_compile, items=lambda: _compile_items(tier),
                 exhaustive=(tier == "thorough")),
        HypPart(name="alloc", check=check_alloc, strategy=_history,
                examples=150 if tier == "quick" else 3000,
                seconds=40 if tier == "quick" else 600),
        EnumPart(name="machine", check=check_machine, exhaustive=False,
                 items=lambda: [{"shard": i, "examples": 40 if tier == "quick" else 600, "steps": 30} for i in range(16)]),
    ]
    if tier == "thorough":
        ps.append(EnumPart(name="full-walk", check=check_full_walk,
                           items=lambda: [{"date": "2024-03-01", "every": 1000},
                                          {"date": "2031-12-31", "every": 7, "limit": 6000}]))
    else:
        ps.append(EnumPart(name="full-walk", check=check_full_walk, exhaustive=False,
                           items=lambda: [{"date": "2024-03-01", "every": 97, "limit": 3000},
                                          {"date": "2031-12-31", "every": 7, "limit": 2700}]))
    return ps
