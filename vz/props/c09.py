"""C09 -- query output renders the selected notes faithfully."""

from __future__ import annotations

from hypothesis import strategies as st

from .. import env
from ..driver import HypPart, InvalidCase, Rec, Violation
from ..gen import index as G
from ..model import eval3
from ..model import page as P
from ..model import query as Q
from .c03 import build_index

ID = "C09"
LEVEL = "exploration"
RULE = (
    "Hypothesis draws an indexed directory (C03 generator; some pages padded so that items sit on lines >= 10, "
    "notes with equal tags / kinds / priorities / dates so ties occur, notes with several tags of a kind, "
    "sections) and 8 queries = select form (note, file, prop, prop:KEY, links, @ # + %, each optionally inside "
    "count()) x optional WHERE x 0-4 grouping dimensions (all 8 + none) x ordering lists of 1-3 keys.  The output "
    "of swog.execute is parsed back into a header tree (# x32, = x24, + x16, - x8) with leaf entries and compared "
    "with an independent model over the raw index rows of the matched notes: every matched note exactly once, "
    "under the header path given by its values for the G dimensions (empty values print no header but keep their "
    "level), sibling headers strictly increasing, note entries non-decreasing under the tuple of O keys (none = "
    "page path, then line number as a number), value selections = the distinct values of the group's notes "
    "(ascending when the order list is exactly alpha), count(x) = number of entries of x per group (checked "
    "against the model and against the output of the same query without count); two queries per case also go "
    "through the CLI (`zorg query` stdout, `zorg query -s` stored page) and must carry the same text.  Non-trivial = >= 3 matched notes "
    "and (>= 2 leaf groups or >= 2 distinct order keys among them); distinct by SHA-1 of (directory, query)."
)
ASSUMPTIONS = [
    "the matched set is computed by the independent evaluator of C03; queries with rows of Unknown verdict are skipped",
    "ties under the ORDER BY keys are unconstrained; order lists put alpha last or alone",
    "label formulas ([[page]], '#a | #b', '1 | OPEN TODOS', section titles joined by ' | ') are presentation constants",
]

MARK = {1: "#" * 32, 2: "=" * 24, 3: "+" * 16, 4: "-" * 8}
DIMS = ["file", "section", "type", "priority", "@", "#", "%", "+", "none"]
KEYS = ["alpha", "create", "modify", "priority", "type", "none"]
TYPE_LABEL = {"BASIC": "4 | NOTES", "OPEN_TODO": "1 | OPEN TODOS", "BLOCKED_TODO": "1 | OPEN TODOS",
              "PARENT_TODO": "1 | OPEN TODOS", "CLOSED_TODO": "2 | DONE TODOS", "CANCELED_TODO": "3 | CANCELED TODOS"}
KIND_CHAR = {v: k for k, v in P.KIND_NAME.items()}
TAGF = {"@": "contexts", "#": "areas", "%": "people", "+": "projects"}


@st.composite
def _query(draw):
    sel = draw(st.sampled_from(["note", "note", "note", "file", "prop", "propval", "links", "@", "#", "+", "%"]))
    s = {"k": sel, "count": draw(st.integers(0, 3)) == 0}
    if sel == "propval":
        s["key"] = draw(st.sampled_from(["k", "due", "n", "ID"]))
    where = draw(st.one_of(st.none(), st.none(), G.hit_or(0, 1)))
    group = draw(st.lists(st.sampled_from(DIMS), min_size=0, max_size=4))
    order = draw(st.lists(st.sampled_from(KEYS[1:]), min_size=0, max_size=2))
    if draw(st.booleans()) or not order:
        order.append("alpha")
    if draw(st.integers(0, 2)) == 0:
        order = [draw(st.sampled_from(KEYS))]
    return {"select": s, "where": where, "order": order, "group": group or None, "go": draw(st.booleans())}


@st.composite
def _case(draw):
    return {"dir": draw(G.directory(n_pages=(1, 3), notes_per_page=(2, 6), pad_lines=True)),
            "today": draw(st.sampled_from(G.TODAYS)), "queries": [draw(_query()) for _ in range(8)]}


def note_text(r) -> str:
    ch = KIND_CHAR[r["kind"]]
    pr = f" {r['priority']}" if r["kind"] not in ("BASIC", "CLOSED_TODO", "CANCELED_TODO") else ""
    return f"{ch}{pr} {r['body'].strip()}"


def dim_label(dim, r) -> str:
    if dim == "file":
        return "[[" + r["page"].replace(".zo", "") + "]]"
    if dim == "section":
        ts = r["section"]
        parts = ([ts[0]] if ts and ts[0] else []) + list(ts[1:])
        return " | ".join(parts)
    if dim == "type":
        return TYPE_LABEL[r["kind"]]
    if dim == "priority":
        return r["priority"] or ""
    return " | ".join(dim + t for t in sorted(r[TAGF[dim]]))


def order_key(keys, r):
    out = []
    for k in keys:
        if k == "alpha":
            out.append(note_text(r) + "\n")  # to_string() ends with a newline
        elif k == "create":
            out.append(r["create"])
        elif k == "modify":
            out.append(r["modify"])
        elif k == "priority":
            out.append(r["priority"] or "")
        elif k == "type":
            out.append(TYPE_LABEL[r["kind"]])
        else:
            out.append((r["page"], r["line"]))
    return tuple(out)


def entries_of(sel, rows):
    """Values one leaf group must list for a (non-count) select."""
    k = sel["k"]
    if k == "note":
        return [note_text(r) for r in rows]
    vals = []
    for r in rows:
        if k == "file":
            vs = [r["page"]]
        elif k == "prop":
            vs = list(r["props"].keys())
        elif k == "propval":
            vs = [r["props"][sel["key"]]] if sel["key"] in r["props"] else []
        elif k == "links":
            vs = r["links"]
        else:
            vs = r[TAGF[k]]
        for v in vs:
            if v not in vals:
                vals.append(v)
    return vals


def parse_output(out: str, ndims: int):
    """-> (leaves: {path tuple: [entry]}, header sequences {(level, parent path): [labels]})"""
    leaves, seqs = {}, {}
    path = [None] * ndims
    cur = None
    for ln in out.split("\n"):
        lv = None
        for L in range(1, 5):
            if ln.startswith(MARK[L] + " ") and not ln.startswith(MARK[L] + MARK[L][0]):
                lv = L
        if lv is not None:
            if lv > ndims:
                raise Violation("header-level", f"level-{lv} header with {ndims} grouping dimensions: {ln!r}")
            label = ln[len(MARK[lv]) + 1:]
            path[lv - 1] = label
            for j in range(lv, ndims):
                path[j] = None
            seqs.setdefault((lv, tuple(path[:lv - 1])), []).append(label)
            leaves.setdefault(tuple(path), [])
            cur = None
            continue
        if ln.strip() == "":
            cur = None
            continue
        key = tuple(path)
        if ln.startswith(" ") and cur is not None:
            leaves[key][-1] += "\n" + ln
        else:
            leaves.setdefault(key, []).append(ln)
            cur = key
    return leaves, seqs


def check_query(q, rows, zdir, today, rec, text=None):
    from zorg.service import swog

    ctx = {"today": today, "rows": rows}
    if q["where"] is not None:
        verdicts = [eval3.ev_or(q["where"], r, ctx) for r in rows]
        if any(v is None for v in verdicts):
            return None
        M = [r for r, v in zip(rows, verdicts) if v]
    else:
        M = list(rows)
    text = Q.render(q)
    errs = Q.syntax_errors(text)
    if errs and not Q.has_tolerated_syntax(q["where"]):
        raise InvalidCase(f"query not well-formed: {text!r}: {errs[:1]}")
    env.fresh_process()
    with rec.sut("swog.execute"):
        out = swog.execute(zdir, env.db_url(zdir), text)
    env.fresh_process()
    dims = [d for d in (q["group"] or []) if d != "none"]
    keys = q["order"] or ["type", "priority", "modify", "create"]
    sel = q["select"] or {"k": "note", "count": False}
    leaves, seqs = parse_output(out, len(dims))
    groups = {}
    for r in M:
        p = tuple((dim_label(d, r) or None) for d in dims)
        groups.setdefault(p, []).append(r)
    if not dims:
        groups.setdefault((), [])  # ungrouped output always has its single (possibly empty) leaf

    def fail(clause, msg):
        raise Violation(clause + ":" + sel["k"] + ("+count" if sel["count"] else ""),
                        f"query {text!r}: {msg}\n--- output\n{out}")

    for (lv, parent), labels in seqs.items():
        for a, b in zip(labels, labels[1:]):
            if not a < b:
                fail("sibling-headers-not-sorted-distinct", f"level {lv} under {parent}: {a!r} then {b!r}")
    for p, ents in leaves.items():
        if p not in groups and ents:
            fail("unexpected-group", f"entries {ents[:2]} under header path {p} that no matched note has")
        if p not in groups and not ents:
            # a header without content is fine only as an inner node of an expected path
            if not any(g[:len([x for x in p if x is not None])] for g in groups):
                pass
    hidden = {}
    for p, rs in groups.items():
        got = leaves.get(p)
        want = entries_of(sel, rs)
        if sel["k"] != "note" and "" in want:
            # an empty value (a property left empty) prints as an empty line, which the listing format cannot
            # show next to its blank separators; count(x) does count it
            rec.label("empty-value-in-selection")
            hidden[p] = 1
            if not sel["count"]:
                want = [w for w in want if w != ""]
        if got is None and not want and not sel["count"]:
            continue  # a group without header and without values prints nothing
        if got is None:
            fail("missing-group", f"no output for header path {p} ({len(rs)} notes)")
        if sel["count"]:
            if got != [str(len(want))]:
                fail("count", f"group {p}: printed {got}, {len(want)} entries expected ({want[:5]})")
            continue
        if sel["k"] == "note":
            if sorted(got) != sorted(want):
                miss = [w for w in want if w not in got]
                extra = [g for g in got if g not in want]
                fail("note-multiset", f"group {p}: missing {miss[:2]}, unexpected {extra[:2]}")
            by_text = {}
            for r in rs:
                by_text.setdefault(note_text(r), []).append(r)
            seq = []
            for g in got:
                seq.append(by_text[g].pop(0))
            if "none" in keys and "order-none-line-numbers-as-strings" in rec.open_keys and any(
                    x["page"] == y["page"] and len(str(x["line"])) != len(str(y["line"])) for x in rs for y in rs):
                # input class of the known finding: same page, line numbers of different digit counts
                rec.info["groups_excluded_by_known_finding"] = rec.info.get("groups_excluded_by_known_finding", 0) + 1
                continue
            for a, b in zip(seq, seq[1:]):
                if order_key(keys, a) > order_key(keys, b):
                    fail("order:" + "/".join(keys), f"group {p}: {note_text(a)[:40]!r} ({order_key(keys, a)}) printed "
                         f"before {note_text(b)[:40]!r} ({order_key(keys, b)})")
        else:
            if len(got) != len(set(got)):
                fail("duplicate-values", f"group {p}: {got}")
            if set(got) != set(want):
                fail("value-set", f"group {p}: printed {sorted(got)}, carried {sorted(want)}")
            if keys == ["alpha"] and got != sorted(got):
                fail("values-not-sorted", f"group {p}: {got}")
            if sel["k"] == "file" and got != sorted(got):
                fail("values-not-sorted", f"group {p}: {got}")
    nkeys = len({order_key(keys, r) for r in M})
    return {"matched": len(M), "groups": len(groups), "nkeys": nkeys, "out": out, "leaves": leaves, "hidden": hidden}


def check(case, rec: Rec) -> None:
    today = tuple(int(x) for x in case["today"].split("-"))
    nontriv = 0
    with env.sandbox("vz-c09-") as box, env.frozen(case["today"]):
        zdir = box / "org"
        zdir.mkdir()
        rows = build_index(case, zdir, rec)
        for q in case["queries"]:
            try:
                info = check_query(q, rows, zdir, today, rec)
            except Violation as v:
                raise Violation(v.clause, v.detail, case={"dir": case["dir"], "today": case["today"], "queries": [q]})
            if info is None:
                rec.label("skipped-unknown")
                continue
            qi = case["queries"].index(q)
            if qi < 2:
                # the same query through the CLI: stdout (qi 0) / a stored query page (qi 1) carry the same text
                text = Q.render(q)
                one = {"dir": case["dir"], "today": case["today"], "queries": [q]}
                if qi == 0:
                    with rec.sut("zorg-query"):
                        r = env.zorg(zdir, "query", text)
                    want = (info["out"] + "\n") if info["out"] else ""
                    if r.code != 0 or r.out != want:
                        raise Violation("cli-stdout-differs", f"`zorg query {text!r}` exit {r.code} printed\n{r.out}\n--- "
                                        f"swog.execute returned\n{info['out']}", case=one)
                    rec.label("cli-stdout")
                else:
                    with rec.sut("zorg-query-s"):
                        r = env.zorg(zdir, "query", "-s", text)
                    path = r.out.strip()
                    if r.code != 0 or not path.endswith(".zoq") or not __import__("os").path.exists(path):
                        raise Violation("cli-store-in-file", f"`zorg query -s {text!r}` exit {r.code}: {r.out!r}", case=one)
                    body = open(path).read()
                    head, _, rest = body.partition("\n\n")
                    if not head.startswith(f"# {text}\n") or rest != info["out"]:
                        raise Violation("cli-stored-page-differs", f"stored page for {text!r}:\n{body}\n--- swog.execute "
                                        f"returned\n{info['out']}", case=one)
                    __import__("shutil").rmtree(zdir / "zoq" / "tmp", ignore_errors=True)
                    rec.label("cli-store-in-file")
            if q["select"]["count"]:
                # metamorphic: count(x) per group == number of entries `S x` prints for the same W/O/G
                q2 = dict(q, select=dict(q["select"], count=False))
                info2 = check_query(q2, rows, zdir, today, rec)
                for p, got in info["leaves"].items():
                    if got and got != [str(len(info2["leaves"].get(p, [])) + info2["hidden"].get(p, 0))]:
                        raise Violation("count-vs-select", f"{Q.render(q)!r}: group {p} counts {got}, select lists "
                                        f"{len(info2['leaves'].get(p, []))} entries (+{info2['hidden'].get(p, 0)} empty)",
                                        case={"dir": case["dir"], "today": case["today"], "queries": [q]})
                rec.label("count")
            rec.label("select:" + q["select"]["k"])
            rec.label(f"dims:{len([d for d in (q['group'] or []) if d != 'none'])}")
            for k in q["order"]:
                rec.label("order:" + k)
            if info["matched"] >= 3 and (info["groups"] >= 2 or info["nkeys"] >= 2):
                nontriv += 1
            rec.info["queries"] = rec.info.get("queries", 0) + 1
    rec.info["nontrivial_queries"] = nontriv
    rec.nontrivial = nontriv >= 1


def sample_view(case):
    return f"{len(case['dir'])} pages {sorted(case['dir'])}; queries:\n" + "\n".join(Q.render(q) for q in case["queries"])


def parts(tier):
    from ..engine import load_findings

    Q.set_open({f["key"] for f in load_findings("C04") if f.get("status") == "known"})
    quick = tier == "quick"
    return [HypPart(name="render", check=check, strategy=_case,
                    examples=30 if quick else 800, seconds=55 if quick else 600)]
