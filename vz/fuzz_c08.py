"""Coverage-guided supplement for C08 (atheris / libFuzzer), run as a child process:

    python -m vz.fuzz_c08 <repo-src> <out-dir> <runs> <seed> <corpus: seeded|empty>

The target writes the bytes to a page file, compiles it with walk_zorg_page and applies the C08
oracle (totality; parser error <=> has_errors; note count) *inside* the target.  A failing input
is saved to <out-dir>/crash.bin together with crash.txt (clause), then the process exits.
"""

import os
import sys


def main() -> None:
    src, out_dir, runs, seed, corpus_mode = sys.argv[1], sys.argv[2], int(sys.argv[3]), int(sys.argv[4]), sys.argv[5]
    verif = os.path.dirname(os.path.dirname(os.path.abspath(__file__)))
    sys.path.insert(0, os.path.join(verif, ".deps"))
    sys.path.insert(0, src)
    sys.path.insert(0, verif)
    devnull = os.open(os.devnull, os.O_WRONLY)
    keep_err = os.dup(2)
    import atheris

    with atheris.instrument_imports(include=["zorg.service.compiler", "zorg.shared.dates"]):
        import zorg.service.compiler  # noqa: F401
        import zorg.shared.dates  # noqa: F401
    from pathlib import Path

    from freezegun import freeze_time
    from zorg.service.compiler import walk_zorg_page

    from vz.model import page as P
    from vz.props.c08 import _count_items

    os.makedirs(out_dir, exist_ok=True)
    work = Path(out_dir) / "work"
    work.mkdir(exist_ok=True)
    corpus = Path(out_dir) / "corpus"
    corpus.mkdir(exist_ok=True)
    if corpus_mode == "seeded":
        repo = Path(src).parent
        for i, f in enumerate(sorted(list((repo / "examples" / "zorg_file").glob("*.zo")) + list((repo / "tests" / "data").glob("*.zo")))):
            data = f.read_bytes()
            (corpus / f"seed{i}").write_bytes(data[:400])
        for i, t in enumerate(["# T\n\n- 240101#aa note k::v\n  * b:: c d\n", "# T\n\no P1 240102 240101#ab [[l]] #t\n\n" + "#" * 32 + " H\n- x\n"]):
            (corpus / f"mini{i}").write_bytes(t.encode())
    freezer = freeze_time("2024-06-15T12:00:00")
    freezer.start()
    known_open = os.environ.get("VZ_C08_OPEN", "").split(",")
    n = {"execs": 0}

    def fail(data: bytes, clause: str) -> None:
        (Path(out_dir) / "crash.bin").write_bytes(data)
        (Path(out_dir) / "crash.txt").write_text(clause)
        (Path(out_dir) / "execs.txt").write_text(str(n["execs"]))
        os._exit(77)

    def target(data: bytes) -> None:
        n["execs"] += 1
        if n["execs"] % 25 == 0:
            (Path(out_dir) / "execs.txt").write_text(str(n["execs"]))
        if len(data) > 700:
            return
        stream = data.decode("ascii", errors="ignore")
        os.dup2(devnull, 2)
        try:
            lex, par, tree = P.independent_parse(stream)
            E = bool(par)
            items = _count_items(tree)
            nodes = _count_items(tree, nodes=True)
            (work / "p.zo").write_bytes(data)
            try:
                page = walk_zorg_page(work, Path("p.zo"), verbose=True)
                notes = page.notes
            except Exception as e:  # noqa: BLE001
                fail(data, f"crash:{type(e).__name__}")
                return
        finally:
            os.dup2(keep_err, 2)
        if E and nodes == 0 and "noteless-broken-page" in known_open:
            return
        if E and not page.has_errors:
            fail(data, "syntax-error-not-flagged")
        if not E and page.has_errors:
            fail(data, "flagged-without-error")
        if not E and len(notes) != items:
            fail(data, "notes-dropped")

    argv = [sys.argv[0], str(corpus), f"-runs={runs}", f"-seed={seed}", "-max_len=400", "-timeout=60",
            f"-artifact_prefix={out_dir}/", "-print_final_stats=0", "-verbosity=0"]
    atheris.Setup(argv, target)
    try:
        atheris.Fuzz()
    finally:
        (Path(out_dir) / "execs.txt").write_text(str(n["execs"]))


if __name__ == "__main__":
    main()
