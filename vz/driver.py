"""Sharded generated-input driver shared by all property checks.

A property module exposes ``parts(tier) -> list[Part]``.  A part is either a
Hypothesis search (``HypPart``) or an exhaustive / explicit enumeration
(``EnumPart``).  In both, a *case* is a plain JSON value and the oracle is
``check(case, rec)``, which raises ``Violation`` when the property is violated,
``InvalidCase`` when the generator produced something outside the property's
domain (a generator bug, counted) and anything else only on a harness error.
Replay = ``check(json.load(file)["case"], Rec())`` -- no Hypothesis involved.
"""

from __future__ import annotations

import collections
import contextlib
import hashlib
import json
import multiprocessing as mp
import os
import sys
import time
import traceback
from dataclasses import dataclass, field
from typing import Any, Callable, Optional

NSHARDS = int(os.environ.get("VZ_SHARDS", "16"))


class Violation(Exception):
    """The property does not hold for this case."""

    def __init__(self, clause: str, detail: str = "", case=None, part=None) -> None:
        super().__init__(f"{clause}: {detail}")
        self.clause = clause
        self.detail = detail
        # optional: a smaller, self-contained case (and the part whose check replays it)
        self.case = case
        self.part = part


class InvalidCase(Exception):
    """The generated case is outside the property's domain (generator bug)."""


class Excluded(Exception):
    """The case falls into the input class of an open known finding (decided inside the check,
    where the class can only be recognised after looking at the input, e.g. by parsing it)."""

    def __init__(self, key: str) -> None:
        super().__init__(key)
        self.key = key


class Rec:
    """Per-case recorder: labels, non-triviality, code-under-test guard."""

    open_keys: set = frozenset()

    def __init__(self) -> None:
        self.labels: set[str] = set()
        self.nontrivial = False
        self.info: dict[str, Any] = {}
        # for checks that enumerate sub-cases themselves (e.g. every crash point of a scenario):
        self.sub_evals = 0                 # executions beyond the case itself
        self.sub_nontrivial: list = []     # keys of distinct non-trivial sub-cases

    def label(self, *names: str) -> None:
        self.labels.update(names)

    @contextlib.contextmanager
    def sut(self, what: str):
        """Run code under test: any exception it raises is a violation; so is a call that never returns."""
        try:
            with watchdog():
                yield
        except (Violation, InvalidCase, Excluded):
            raise
        except SutHang:
            raise Violation(f"hang:{what}", f"the call did not return within {SUT_LIMIT:.0f} s "
                            "(such calls take milliseconds to a few seconds on this harness)")
        except BaseException as e:  # noqa: BLE001
            if isinstance(e, (KeyboardInterrupt, MemoryError)):
                raise
            if type(e).__name__ in ("StopTest", "UnsatisfiedAssumption", "Frozen"):
                raise
            raise Violation(
                f"crash:{what}:{type(e).__name__}@{_innermost_zorg_frame(e)}",
                f"{type(e).__name__}: {str(e)[:300]}",
            ) from e


class SutHang(BaseException):
    """A single call into the code under test ran into the watchdog (an endless loop, not a slow machine:
    the limit is hundreds of times what such a call needs)."""


SUT_LIMIT = float(os.environ.get("VZ_SUT_LIMIT", "180") or 0)
_HANGS = [0]  # hangs seen by this process: later calls get a short leash (the run is lost anyway)


def _on_alarm(signum, frame):
    _HANGS[0] += 1
    raise SutHang()


@contextlib.contextmanager
def watchdog(limit: float = None):
    """Bound one direct call into zorg.  Nested use keeps the outer alarm."""
    import signal
    import threading

    limit = SUT_LIMIT if limit is None else limit
    if _HANGS[0] and limit > 15:
        limit = 15.0
    if limit <= 0 or threading.current_thread() is not threading.main_thread():
        yield
        return
    old_handler = signal.signal(signal.SIGALRM, _on_alarm)
    old_timer = signal.setitimer(signal.ITIMER_REAL, limit)
    try:
        yield
    finally:
        signal.setitimer(signal.ITIMER_REAL, old_timer[0])
        signal.signal(signal.SIGALRM, old_handler)


def _innermost_zorg_frame(e: BaseException) -> str:
    tb = traceback.extract_tb(e.__traceback__)
    best = None
    for fr in tb:
        if "/zorg/" in fr.filename and "/grammar/" not in fr.filename:
            best = fr
    if best is None:
        best = tb[-1] if tb else None
    if best is None:
        return "?"
    return f"{os.path.basename(best.filename)}:{best.name}"


@dataclass
class Part:
    name: str
    check: Callable[[Any, Rec], None]
    exhaustive: bool = False
    known_class: Optional[Callable[[Any], set]] = None


@dataclass
class HypPart(Part):
    strategy: Callable[[], Any] = None  # () -> SearchStrategy
    examples: int = 100  # per shard
    seconds: float = 60.0  # soft wall-clock budget per shard
    shards: int = NSHARDS


@dataclass
class EnumPart(Part):
    items: Callable[[], list] = None  # () -> list of JSON cases
    exhaustive: bool = True
    seconds: float = 600.0


def case_hash(case: Any) -> str:
    return hashlib.sha1(
        json.dumps(case, sort_keys=True, default=str).encode()
    ).hexdigest()


@dataclass
class ShardResult:
    evals: int = 0
    nontrivial: set = field(default_factory=set)
    labels: collections.Counter = field(default_factory=collections.Counter)
    samples: list = field(default_factory=list)
    failures: list = field(default_factory=list)  # dicts
    excluded: collections.Counter = field(default_factory=collections.Counter)
    invalid: int = 0
    invalid_samples: list = field(default_factory=list)
    harness_errors: list = field(default_factory=list)
    budget_exhausted: bool = False
    info: collections.Counter = field(default_factory=collections.Counter)

    def merge(self, o: "ShardResult") -> None:
        self.evals += o.evals
        self.nontrivial |= o.nontrivial
        self.labels.update(o.labels)
        for s in o.samples:
            if len(self.samples) < 8:
                self.samples.append(s)
        self.failures.extend(o.failures)
        self.excluded.update(o.excluded)
        self.invalid += o.invalid
        self.invalid_samples.extend(o.invalid_samples[:3])
        self.harness_errors.extend(o.harness_errors[:3])
        self.budget_exhausted |= o.budget_exhausted
        self.info.update(o.info)


MAX_FAILS_PER_SIG = 3


def run_one(part: Part, case: Any, res: ShardResult, open_keys: set,
            want_sample: bool) -> None:
    """Execute the oracle on one case and account for the outcome."""
    if part.known_class is not None and open_keys:
        hit = part.known_class(case) & open_keys
        if hit:
            for k in hit:
                res.excluded[k] += 1
            return
    rec = Rec()
    rec.open_keys = open_keys
    res.evals += 1
    try:
        part.check(case, rec)
    except Excluded as x:
        res.evals -= 1
        res.excluded[x.key] += 1
        return
    except Violation as v:
        n = sum(1 for f in res.failures if f["sig"] == v.clause)
        if n < MAX_FAILS_PER_SIG:
            res.failures.append(
                {"sig": v.clause, "detail": v.detail[:2000],
                 "case": case if v.case is None else v.case,
                 "part": part.name if v.part is None else v.part}
            )
        else:
            res.info["more_failures:" + v.clause] += 1
        return
    except InvalidCase as e:
        res.invalid += 1
        if len(res.invalid_samples) < 3:
            res.invalid_samples.append({"why": str(e)[:500], "case": case})
        return
    except SutHang:
        # (raised by env.zorg: an in-process CLI command that is not inside a rec.sut() scope)
        res.failures.append({"sig": "hang:zorg-command", "case": case, "part": part.name,
                             "detail": f"a zorg command did not return within {SUT_LIMIT:.0f} s"})
        return
    except BaseException as e:  # noqa: BLE001
        if type(e).__name__ in ("StopTest", "UnsatisfiedAssumption", "Frozen"):
            raise
        if isinstance(e, KeyboardInterrupt):
            raise
        if len(res.harness_errors) < 3:
            res.harness_errors.append(
                {"trace": traceback.format_exc()[-3000:], "case": case}
            )
        return
    for lb in rec.labels:
        res.labels[lb] += 1
    for k, v in rec.info.items():
        if isinstance(v, int):
            res.info[k] += v
    res.evals += rec.sub_evals
    for k in rec.sub_nontrivial:
        res.nontrivial.add(case_hash([case_hash(case), k]))
    if rec.nontrivial:
        res.nontrivial.add(case_hash(case))
        if want_sample and len(res.samples) < 2:
            res.samples.append(case)


def _quiet_child() -> None:
    devnull = os.open(os.devnull, os.O_WRONLY)
    os.dup2(devnull, 1)
    os.dup2(devnull, 2)
    sys.stdout = open(os.devnull, "w")
    sys.stderr = open(os.devnull, "w")


_JOB: dict = {}  # inherited by forked workers (parts hold closures: not picklable)


def _hyp_shard(args) -> ShardResult:
    shard, seed, quiet = args
    part, open_keys = _JOB["part"], _JOB["open_keys"]
    if quiet:
        _quiet_child()
    import hypothesis
    from hypothesis import HealthCheck, Phase, given, settings

    res = ShardResult()
    t_end = time.monotonic() + part.seconds
    strat = part.strategy()

    @hypothesis.seed(seed * 1000 + shard)
    @settings(
        max_examples=part.examples,
        deadline=None,
        database=None,
        derandomize=False,
        report_multiple_bugs=False,
        phases=[Phase.generate],
        suppress_health_check=[HealthCheck.too_slow, HealthCheck.large_base_example,
                               HealthCheck.data_too_large, HealthCheck.filter_too_much],
    )
    @given(strat)
    def test(case):
        if time.monotonic() > t_end:
            res.budget_exhausted = True
            return
        run_one(part, case, res, open_keys, want_sample=(shard < 4))

    try:
        test()
    except BaseException:  # noqa: BLE001
        res.harness_errors.append({"trace": traceback.format_exc()[-3000:], "case": None})
    return res


def _enum_shard(args) -> ShardResult:
    shard, nshards, quiet = args
    part, open_keys, items = _JOB["part"], _JOB["open_keys"], _JOB["items"]
    if quiet:
        _quiet_child()
    res = ShardResult()
    t_end = time.monotonic() + part.seconds
    for i in range(shard, len(items), nshards):
        if time.monotonic() > t_end:
            res.budget_exhausted = True
            break
        run_one(part, items[i], res, open_keys, want_sample=(shard < 4))
    return res


def run_part(part: Part, seed: int, open_keys: set) -> ShardResult:
    ctx = mp.get_context("fork")
    total = ShardResult()
    quiet = os.environ.get("VZ_DEBUG") != "1"
    _JOB.clear()
    _JOB.update(part=part, open_keys=open_keys)
    if isinstance(part, HypPart):
        n = part.shards
        jobs = [(i, seed, quiet) for i in range(n)]
        fn = _hyp_shard
    else:
        items = part.items()
        _JOB["items"] = items
        n = min(NSHARDS, max(1, len(items)))
        jobs = [(i, n, quiet) for i in range(n)]
        fn = _enum_shard
    if n == 1 or os.environ.get("VZ_INLINE") == "1":
        for j in jobs:
            total.merge(fn(j[:-1] + (False,)))
    else:
        with ctx.Pool(min(n, NSHARDS)) as pool:
            for r in pool.imap_unordered(fn, jobs):
                total.merge(r)
    return total


# --------------------------------------------------------------------------
# Shrinking (only ever runs when a failure was found)


def _shrink_child(part: HypPart, sig: str, seed_full: int, out_path: str) -> None:
    _quiet_child()
    import hypothesis
    from hypothesis import HealthCheck, Phase, given, settings

    best = {"n": None}

    def consider(case):
        enc = json.dumps(case, sort_keys=True, default=str)
        if best["n"] is None or len(enc) < best["n"]:
            best["n"] = len(enc)
            tmp = out_path + ".tmp"
            with open(tmp, "w") as f:
                f.write(enc)
            os.replace(tmp, out_path)

    @hypothesis.seed(seed_full)
    @settings(
        max_examples=max(part.examples, 50),
        deadline=None,
        database=None,
        report_multiple_bugs=False,
        phases=[Phase.generate, Phase.shrink],
        suppress_health_check=list(HealthCheck),
    )
    @given(part.strategy())
    def test(case):
        rec = Rec()
        try:
            part.check(case, rec)
        except Violation as v:
            if v.clause == sig:
                consider(case)
                raise
        except InvalidCase:
            return
        except BaseException as e:  # noqa: BLE001
            if type(e).__name__ in ("StopTest", "UnsatisfiedAssumption", "Frozen"):
                raise
            return

    try:
        test()
    except BaseException:  # noqa: BLE001
        pass


def shrink(part: Part, failure: dict, seed: int, budget_s: float) -> Any:
    """Return a (hopefully smaller) case with the same failure signature."""
    if not isinstance(part, HypPart):
        return failure["case"]
    import tempfile

    fd, out = tempfile.mkstemp(prefix="vz-shrink-")
    os.close(fd)
    os.unlink(out)
    best = failure["case"]
    ctx = mp.get_context("fork")
    # try every shard seed quickly?  The failure was found by *some* shard; we
    # do not know which, so search shards in turn within the budget.
    t_end = time.monotonic() + budget_s
    for shard in range(part.shards):
        left = t_end - time.monotonic()
        if left <= 1:
            break
        p = ctx.Process(target=_shrink_child,
                        args=(part, failure["sig"], seed * 1000 + shard, out))
        p.start()
        p.join(left)
        if p.is_alive():
            p.terminate()
            p.join(5)
        if os.path.exists(out):
            try:
                cand = json.load(open(out))
                if len(json.dumps(cand)) <= len(json.dumps(best, default=str)):
                    best = cand
            finally:
                os.unlink(out)
            break
    # verify
    try:
        part.check(best, Rec())
    except Violation as v:
        if v.clause == failure["sig"]:
            return best
    except BaseException:  # noqa: BLE001
        pass
    return failure["case"]
